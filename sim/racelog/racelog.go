// Package racelog reads the reports the Go race detector writes (GORACE
// log_path=...) and attributes them: a report counts against the code under
// test only when both conflicting accesses were made by it.
package racelog

import (
	"os"
	"sort"
	"strconv"
	"strings"
)

// Access is one side of a reported race.
type Access struct {
	Kind   string   // "Read", "Write", "Previous read", ...
	Frames []string // function names, innermost first
	Where  []string // file:line of each frame
}

// Report is one "WARNING: DATA RACE" block.
type Report struct {
	A, B Access
	Raw  string
}

const gnetMod = "github.com/panjf2000/gnet/v2"

// transparent frames are skipped when looking for the code that made an
// access: the runtime and the standard library (a map access is made by the
// function that indexes the map), and the stand-ins that execute one real
// operation on behalf of the code under test.
func transparent(fn string) bool {
	switch {
	case strings.HasPrefix(fn, gnetMod):
		return false
	case strings.HasPrefix(fn, "verif/sim/vatomic."), strings.HasPrefix(fn, "verif/sim/vsync."), strings.HasPrefix(fn, "verif/sim/vsched.MapKeys"):
		return true
	case strings.HasPrefix(fn, "verif/"):
		return false
	}
	// standard library: the first path element has no dot
	first := fn
	if i := strings.Index(first, "/"); i >= 0 {
		first = first[:i]
	} else if i := strings.Index(first, "."); i >= 0 {
		first = first[:i]
	}
	if !strings.Contains(first, ".") {
		return true
	}
	// other modules (golang.org/x/sync/errgroup, ants, zap): what they touch they touch for their caller
	return true
}

// Owner returns the function of the code that made the access and whether it
// belongs to the code under test.
func (a Access) Owner() (fn string, gnet bool) {
	for _, f := range a.Frames {
		if transparent(f) {
			continue
		}
		return f, strings.HasPrefix(f, gnetMod)
	}
	return "", false
}

// InGnet reports whether both accesses were made by the code under test.
func (r Report) InGnet() bool {
	_, a := r.A.Owner()
	_, b := r.B.Owner()
	return a && b
}

func short(fn string) string {
	fn = strings.TrimPrefix(fn, gnetMod)
	fn = strings.TrimPrefix(fn, "/")
	fn = strings.TrimPrefix(fn, ".")
	return strings.TrimSuffix(fn, "()")
}

// Key names the race by the two functions involved (order-independent).
func (r Report) Key() string {
	a, _ := r.A.Owner()
	b, _ := r.B.Owner()
	k := []string{short(a), short(b)}
	sort.Strings(k)
	return k[0] + "+" + k[1]
}

// Describe renders both accesses with their innermost frames.
func (r Report) Describe() string {
	d := func(a Access) string {
		s := a.Kind + " by"
		n := 0
		for i, f := range a.Frames {
			if n == 5 {
				break
			}
			s += " " + short(f)
			if i < len(a.Where) && a.Where[i] != "" {
				s += "[" + a.Where[i] + "]"
			}
			s += " <-"
			n++
		}
		return strings.TrimSuffix(s, " <-")
	}
	return d(r.A) + " || " + d(r.B)
}

var (
	path   string
	offset int64
)

// Path returns the file this process's reports go to ("" when GORACE names none).
func Path() string {
	if path != "" {
		return path
	}
	for _, f := range strings.Fields(os.Getenv("GORACE")) {
		if v, ok := strings.CutPrefix(f, "log_path="); ok && v != "stderr" && v != "stdout" {
			path = v + "." + strconv.Itoa(os.Getpid())
		}
	}
	return path
}

// New returns the reports written since the previous call.
func New() []Report {
	p := Path()
	if p == "" {
		return nil
	}
	b, err := os.ReadFile(p)
	if err != nil || int64(len(b)) <= offset {
		return nil
	}
	txt := string(b[offset:])
	// only complete blocks
	end := strings.LastIndex(txt, "==================\n")
	if end < 0 {
		return nil
	}
	offset += int64(end)
	return Parse(txt[:end])
}

// Parse splits the detector's output into reports.
func Parse(txt string) []Report {
	var out []Report
	for _, blk := range strings.Split(txt, "==================\n") {
		if !strings.Contains(blk, "WARNING: DATA RACE") {
			continue
		}
		r := Report{Raw: blk}
		secs := strings.Split(blk, "\n\n")
		n := 0
		for _, sec := range secs {
			lines := strings.Split(strings.TrimPrefix(sec, "WARNING: DATA RACE\n"), "\n")
			if len(lines) == 0 {
				continue
			}
			head := lines[0]
			if !strings.Contains(head, " at 0x") || strings.HasPrefix(head, "Goroutine") {
				continue
			}
			a := Access{Kind: head[:strings.Index(head, " at 0x")]}
			for i := 1; i < len(lines); i++ {
				l := lines[i]
				if strings.HasPrefix(l, "      ") {
					if len(a.Where) < len(a.Frames) {
						w := strings.TrimSpace(l)
						if j := strings.Index(w, " +0x"); j >= 0 {
							w = w[:j]
						}
						if j := strings.LastIndex(w, "/"); j >= 0 {
							w = w[j+1:]
						}
						a.Where = append(a.Where, w)
					}
				} else if strings.HasPrefix(l, "  ") {
					for len(a.Where) < len(a.Frames) {
						a.Where = append(a.Where, "")
					}
					a.Frames = append(a.Frames, strings.TrimSpace(l))
				}
			}
			if n == 0 {
				r.A = a
			} else if n == 1 {
				r.B = a
			}
			n++
		}
		if n >= 2 {
			out = append(out, r)
		}
	}
	return out
}
