// Package vsync provides stand-ins for sync.Mutex, sync.RWMutex and sync.Once
// (rule R10 of the instrumenter). A goroutine blocked on a real mutex is not
// "durably blocked" for testing/synctest, and it is invisible to the
// cooperative scheduler: a task that holds a lock across a scheduling point
// (a simulated system call, an atomic) while another task asks for the lock
// would hang the run. These types block through the scheduler instead, so
// that lock acquisition is one more scheduling point and a waiting task is a
// parked task. Outside a run (package initialisation, code that is not a
// task) they fall back to the real primitives' behaviour.
package vsync

import (
	"sync"

	"verif/sim/vsched"
)

// Mutex mirrors sync.Mutex.
type Mutex struct {
	mu sync.Mutex
}

func (m *Mutex) Lock() {
	if vsched.Active() == nil || vsched.CurrentName() == "" {
		m.mu.Lock()
		return
	}
	vsched.Yield("mutex:lock")
	for !m.mu.TryLock() {
		vsched.Block("mutex:wait", func() bool {
			if m.mu.TryLock() {
				m.mu.Unlock()
				return true
			}
			return false
		})
	}
}

func (m *Mutex) TryLock() bool { return m.mu.TryLock() }

func (m *Mutex) Unlock() {
	m.mu.Unlock()
	if vsched.Active() != nil {
		vsched.Poke()
	}
}

// RWMutex mirrors sync.RWMutex.
type RWMutex struct {
	mu sync.RWMutex
}

func (m *RWMutex) Lock() {
	if vsched.Active() == nil || vsched.CurrentName() == "" {
		m.mu.Lock()
		return
	}
	vsched.Yield("rwmutex:lock")
	for !m.mu.TryLock() {
		vsched.Block("rwmutex:wait", func() bool {
			if m.mu.TryLock() {
				m.mu.Unlock()
				return true
			}
			return false
		})
	}
}

func (m *RWMutex) RLock() {
	if vsched.Active() == nil || vsched.CurrentName() == "" {
		m.mu.RLock()
		return
	}
	vsched.Yield("rwmutex:rlock")
	for !m.mu.TryRLock() {
		vsched.Block("rwmutex:rwait", func() bool {
			if m.mu.TryRLock() {
				m.mu.RUnlock()
				return true
			}
			return false
		})
	}
}

func (m *RWMutex) TryLock() bool  { return m.mu.TryLock() }
func (m *RWMutex) TryRLock() bool { return m.mu.TryRLock() }
func (m *RWMutex) Unlock() {
	m.mu.Unlock()
	if vsched.Active() != nil {
		vsched.Poke()
	}
}
func (m *RWMutex) RUnlock() {
	m.mu.RUnlock()
	if vsched.Active() != nil {
		vsched.Poke()
	}
}
func (m *RWMutex) RLocker() sync.Locker { return (*rlocker)(m) }

type rlocker RWMutex

func (r *rlocker) Lock()   { (*RWMutex)(r).RLock() }
func (r *rlocker) Unlock() { (*RWMutex)(r).RUnlock() }

// Once mirrors sync.Once: the function runs exactly once, callers that arrive
// while it runs wait for it (through the scheduler).
type Once struct {
	m    Mutex
	done bool
}

func (o *Once) Do(f func()) {
	if o.done {
		return
	}
	o.m.Lock()
	defer o.m.Unlock()
	if !o.done {
		defer func() { o.done = true }()
		f()
	}
}

// Locker is sync.Locker.
type Locker = sync.Locker
