// Package vpool provides a deterministic stand-in for sync.Pool (rule R9 of
// the instrumenter). sync.Pool keeps per-P caches and is emptied by the
// garbage collector, so what Get returns depends on which P a goroutine runs
// on and on GC timing; the pools of gnet feed capacities back into behaviour
// (a recycled ring buffer has a different capacity than a fresh one), which
// would make a run depend on more than its plan. This pool is a plain LIFO.
package vpool

import (
	"fmt"
	"reflect"
	"sync"
)

type Pool struct {
	New   func() any
	mu    sync.Mutex
	items []any
}

func (p *Pool) Get() any {
	p.mu.Lock()
	if n := len(p.items); n > 0 {
		x := p.items[n-1]
		p.items[n-1] = nil
		p.items = p.items[:n-1]
		p.mu.Unlock()
		return x
	}
	p.mu.Unlock()
	if p.New != nil {
		return p.New()
	}
	return nil
}

// DoublePuts counts Put calls that handed in a pointer the pool already holds:
// the object would be given out twice, i.e. to two holders at once. Message of
// the first one in DoublePutMsg. Reset by the engines between runs.
var (
	DoublePuts   int
	DoublePutMsg string
	dpMu         sync.Mutex
)

// ResetDoublePuts clears the double-Put record.
func ResetDoublePuts() {
	dpMu.Lock()
	DoublePuts, DoublePutMsg = 0, ""
	dpMu.Unlock()
}

func (p *Pool) Put(x any) {
	if x == nil {
		return
	}
	p.mu.Lock()
	if v := reflect.ValueOf(x); v.Kind() == reflect.Ptr {
		for _, y := range p.items {
			if w := reflect.ValueOf(y); w.Kind() == reflect.Ptr && w.Pointer() == v.Pointer() {
				dpMu.Lock()
				DoublePuts++
				if DoublePutMsg == "" {
					DoublePutMsg = fmt.Sprintf("a %T was put into its pool while the pool already held it", x)
				}
				dpMu.Unlock()
				break
			}
		}
	}
	if len(p.items) < 4096 {
		p.items = append(p.items, x)
	}
	p.mu.Unlock()
}
