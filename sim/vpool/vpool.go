// Package vpool provides a deterministic stand-in for sync.Pool (rule R9 of
// the instrumenter). sync.Pool keeps per-P caches and is emptied by the
// garbage collector, so what Get returns depends on which P a goroutine runs
// on and on GC timing; the pools of gnet feed capacities back into behaviour
// (a recycled ring buffer has a different capacity than a fresh one), which
// would make a run depend on more than its plan. This pool is a plain LIFO.
package vpool

import (
	"fmt"
	"reflect"
	"sync"
	"sync/atomic"

	"verif/sim/vsched"
)

type Pool struct {
	New   func() any
	mu    sync.Mutex
	items []item
}

// item: a pooled object and the happens-before edge sync.Pool promises for it
// (a Put of x is ordered before the Get that returns x, and before nothing
// else): hb is released by Put and acquired by that Get. The pool's own lock
// is taken in harness context, where the race detector sees nothing: it would
// order every user of the pool with every other.
type item struct {
	v  any
	hb *int32
}

func (p *Pool) Get() any {
	old := vsched.EnterHarness()
	p.mu.Lock()
	if n := len(p.items); n > 0 {
		x := p.items[n-1]
		p.items[n-1] = item{}
		p.items = p.items[:n-1]
		p.mu.Unlock()
		vsched.Restore(old)
		atomic.LoadInt32(x.hb)
		return x.v
	}
	p.mu.Unlock()
	vsched.Restore(old)
	if p.New != nil {
		return p.New()
	}
	return nil
}

// DoublePuts counts Put calls that handed in a pointer the pool already holds:
// the object would be given out twice, i.e. to two holders at once. Message of
// the first one in DoublePutMsg. Reset by the engines between runs.
var (
	DoublePuts   int
	DoublePutMsg string
	dpMu         sync.Mutex
)

// ResetDoublePuts clears the double-Put record.
func ResetDoublePuts() {
	dpMu.Lock()
	DoublePuts, DoublePutMsg = 0, ""
	dpMu.Unlock()
}

func (p *Pool) Put(x any) {
	if x == nil {
		return
	}
	hb := new(int32)
	atomic.StoreInt32(hb, 1)
	defer vsched.Restore(vsched.EnterHarness())
	p.mu.Lock()
	if v := reflect.ValueOf(x); v.Kind() == reflect.Ptr {
		for _, it := range p.items {
			y := it.v
			if w := reflect.ValueOf(y); w.Kind() == reflect.Ptr && w.Pointer() == v.Pointer() {
				dpMu.Lock()
				DoublePuts++
				if DoublePutMsg == "" {
					DoublePutMsg = fmt.Sprintf("a %T was put into its pool while the pool already held it", x)
				}
				dpMu.Unlock()
				break
			}
		}
	}
	if len(p.items) < 4096 {
		p.items = append(p.items, item{x, hb})
	}
	p.mu.Unlock()
}
