// Package kernelconf holds the simulated kernel (vsys) to the real one: the
// same single-threaded syscall scripts run against real sockets/epoll/eventfd
// of this machine and against vsys, and errno values and epoll event masks are
// compared. A disagreement means the stub is not trustworthy (exit 2), it is
// never a property violation. Scripts avoid capacity-dependent outcomes.
package kernelconf

import (
	"fmt"
	"os"
	"sort"
	"strings"
	"time"

	"golang.org/x/sys/unix"

	"verif/sim/vsys"
)

// env is what a script may do. "our" side is the side gnet would be on.
type env interface {
	name() string
	pair(kind string) (fd int, peer peerH) // kind: "unix" | "tcp"
	udpToClosedPort() int                  // a connected UDP socket whose remote port nobody listens on
	epollCreate() int
	ctl(ep, op, fd int, events uint32) string
	wait(ep int) string // ready events, settled, sorted "fd:mask"
	read(fd, n int) string
	write(fd, n int) string
	writev(fd, segs, each int) string
	close(fd int) string
	dup(fd int) int
	eventfd() int
	efdWrite(fd int) string
	efdRead(fd int) string
	done()
}

type peerH interface {
	send(n int)
	close()
	shutw()
	recvAll() int
}

func errStr(n int, err error) string {
	if err != nil {
		if e, ok := err.(unix.Errno); ok {
			return unix.ErrnoName(e)
		}
		return err.Error()
	}
	return fmt.Sprint(n)
}

func maskStr(m uint32) string {
	var p []string
	for _, b := range []struct {
		v uint32
		n string
	}{{unix.EPOLLIN, "IN"}, {unix.EPOLLOUT, "OUT"}, {unix.EPOLLERR, "ERR"}, {unix.EPOLLHUP, "HUP"}, {unix.EPOLLRDHUP, "RDHUP"}, {unix.EPOLLPRI, "PRI"}} {
		if m&b.v != 0 {
			p = append(p, b.n)
		}
	}
	return strings.Join(p, "|")
}

// ---- real kernel --------------------------------------------------------------

type realEnv struct {
	fds   []int
	label map[int]string
}

func (r *realEnv) name() string { return "linux" }
func (r *realEnv) track(fd int, l string) int {
	r.fds = append(r.fds, fd)
	if r.label == nil {
		r.label = map[int]string{}
	}
	r.label[fd] = l
	return fd
}
func (r *realEnv) done() {
	for _, fd := range r.fds {
		_ = unix.Close(fd)
	}
}

type realPeer struct{ fd int }

func settle() { time.Sleep(15 * time.Millisecond) }

func (p *realPeer) send(n int) {
	b := make([]byte, n)
	_, _ = unix.Write(p.fd, b)
	settle()
}
func (p *realPeer) close() { _ = unix.Close(p.fd); p.fd = -1; settle() }
func (p *realPeer) shutw() { _ = unix.Shutdown(p.fd, unix.SHUT_WR); settle() }
func (p *realPeer) recvAll() int {
	b := make([]byte, 1<<20)
	tot := 0
	for {
		n, err := unix.Read(p.fd, b)
		if n <= 0 || err != nil {
			break
		}
		tot += n
	}
	settle()
	return tot
}

func (r *realEnv) pair(kind string) (int, peerH) {
	if kind == "unix" {
		p, err := unix.Socketpair(unix.AF_UNIX, unix.SOCK_STREAM|unix.SOCK_NONBLOCK, 0)
		if err != nil {
			panic(err)
		}
		r.track(p[0], "a")
		return p[0], &realPeer{fd: r.track(p[1], "peer")}
	}
	l, err := unix.Socket(unix.AF_INET, unix.SOCK_STREAM, 0)
	if err != nil {
		panic(err)
	}
	defer unix.Close(l)
	if err := unix.Bind(l, &unix.SockaddrInet4{Addr: [4]byte{127, 0, 0, 1}}); err != nil {
		panic(err)
	}
	_ = unix.Listen(l, 8)
	sa, _ := unix.Getsockname(l)
	c, _ := unix.Socket(unix.AF_INET, unix.SOCK_STREAM, 0)
	if err := unix.Connect(c, sa); err != nil {
		panic(err)
	}
	s, _, err := unix.Accept4(l, unix.SOCK_NONBLOCK)
	if err != nil {
		panic(err)
	}
	_ = unix.SetNonblock(c, true)
	r.track(s, "a")
	return s, &realPeer{fd: r.track(c, "peer")}
}
func (r *realEnv) udpToClosedPort() int {
	tmp, err := unix.Socket(unix.AF_INET, unix.SOCK_DGRAM, 0)
	if err != nil {
		panic(err)
	}
	if err := unix.Bind(tmp, &unix.SockaddrInet4{Addr: [4]byte{127, 0, 0, 1}}); err != nil {
		panic(err)
	}
	sa, _ := unix.Getsockname(tmp)
	_ = unix.Close(tmp) // the port is free again: nobody listens there
	c, err := unix.Socket(unix.AF_INET, unix.SOCK_DGRAM|unix.SOCK_NONBLOCK, 0)
	if err != nil {
		panic(err)
	}
	if err := unix.Connect(c, sa); err != nil {
		panic(err)
	}
	return r.track(c, "udp")
}

func (r *realEnv) epollCreate() int {
	fd, err := unix.EpollCreate1(0)
	if err != nil {
		panic(err)
	}
	return r.track(fd, "ep")
}
func (r *realEnv) ctl(ep, op, fd int, events uint32) string {
	return errStr(0, unix.EpollCtl(ep, op, fd, &unix.EpollEvent{Events: events, Fd: int32(fd)}))
}
func (r *realEnv) wait(ep int) string {
	settle()
	evs := make([]unix.EpollEvent, 16)
	n, err := unix.EpollWait(ep, evs, 0)
	if err != nil {
		return errStr(n, err)
	}
	var out []string
	for i := 0; i < n; i++ {
		out = append(out, maskStr(evs[i].Events))
	}
	sort.Strings(out)
	return strings.Join(out, ",")
}
func (r *realEnv) read(fd, n int) string {
	b := make([]byte, n)
	m, err := unix.Read(fd, b)
	return errStr(m, err)
}
func (r *realEnv) write(fd, n int) string {
	m, err := unix.Write(fd, make([]byte, n))
	if n < 65536 {
		settle()
	}
	return errStr(m, err)
}
func (r *realEnv) writev(fd, segs, each int) string {
	iov := make([][]byte, segs)
	for i := range iov {
		iov[i] = make([]byte, each)
	}
	m, err := unix.Writev(fd, iov)
	return errStr(m, err)
}
func (r *realEnv) close(fd int) string { return errStr(0, unix.Close(fd)) }
func (r *realEnv) dup(fd int) int {
	n, err := unix.Dup(fd)
	if err != nil {
		panic(err)
	}
	return r.track(n, "dup")
}
func (r *realEnv) eventfd() int {
	fd, err := unix.Eventfd(0, unix.EFD_NONBLOCK)
	if err != nil {
		panic(err)
	}
	return r.track(fd, "efd")
}
func (r *realEnv) efdWrite(fd int) string {
	var one = [8]byte{1}
	n, err := unix.Write(fd, one[:])
	return errStr(n, err)
}
func (r *realEnv) efdRead(fd int) string {
	var b [8]byte
	n, err := unix.Read(fd, b[:])
	return errStr(n, err)
}

// ---- simulated kernel -----------------------------------------------------------

type simEnv struct {
	k    *vsys.Kernel
	lkey string
	lfd  int
	n    int
}

func newSim() *simEnv {
	step := 0
	k := vsys.New(1, func() int { step++; return step }, func() string { return "conf" })
	return &simEnv{k: k}
}
func (s *simEnv) name() string { return "vsys" }
func (s *simEnv) done()        { s.k.Deactivate() }

type simPeer struct{ s *vsys.Sock }

func (p *simPeer) send(n int)   { p.s.PeerSend(make([]byte, n), nil); p.s.Peer().Deliver(0) }
func (p *simPeer) close()       { p.s.PeerClose(); p.s.Peer().Deliver(0) }
func (p *simPeer) shutw()       { p.s.PeerShutdownWrite(); p.s.Peer().Deliver(0) }
func (p *simPeer) recvAll() int { return len(p.s.PeerRecv(1 << 30)) }

func (s *simEnv) pair(kind string) (int, peerH) {
	// a listener per kind, connect, accept
	s.n++
	var sa unix.Sockaddr
	dom := unix.AF_INET
	if kind == "unix" {
		dom = unix.AF_UNIX
		sa = &unix.SockaddrUnix{Name: fmt.Sprintf("/conf-%d", s.n)}
	} else {
		sa = &unix.SockaddrInet4{Addr: [4]byte{127, 0, 0, 1}, Port: 9000 + s.n}
	}
	l, _ := vsys.Socket(dom, unix.SOCK_STREAM|unix.SOCK_NONBLOCK, 0)
	if err := vsys.Bind(l, sa); err != nil {
		panic(err)
	}
	_ = vsys.Listen(l, 8)
	key := vsys.AddrKey("tcp", sa)
	cli, err := s.k.PeerConnect(key, &unix.SockaddrInet4{Addr: [4]byte{127, 0, 0, 1}, Port: 40000 + s.n})
	if err != nil {
		panic(err)
	}
	fd, _, err := vsys.Accept4(l, unix.SOCK_NONBLOCK)
	if err != nil {
		panic(err)
	}
	_ = vsys.Close(l)
	return fd, &simPeer{s: cli}
}
func (s *simEnv) udpToClosedPort() int {
	s.n++
	fd := s.k.HarnessUDP(&unix.SockaddrInet4{Addr: [4]byte{127, 0, 0, 1}, Port: 41000 + s.n}, &unix.SockaddrInet4{Addr: [4]byte{127, 0, 0, 1}, Port: 9})
	s.k.Transfer(fd, vsys.OwnFramework)
	s.k.UDPOf(fd).Unreach = true
	return fd
}

func (s *simEnv) epollCreate() int { fd, _ := vsys.EpollCreate1(0); return fd }
func (s *simEnv) ctl(ep, op, fd int, events uint32) string {
	return errStr(0, vsys.EpollCtl(ep, op, fd, &unix.EpollEvent{Events: events, Fd: int32(fd)}))
}
func (s *simEnv) wait(ep int) string {
	// arrivals caused by our own writes (RST answers) are in flight: deliver
	for _, sk := range s.k.Socks() {
		if sk.Deliverable() {
			sk.Deliver(0)
		}
	}
	evs := make([]unix.EpollEvent, 16)
	n, err := vsys.EpollWait(ep, evs, 0)
	if err != nil {
		return errStr(n, err)
	}
	var out []string
	for i := 0; i < n; i++ {
		out = append(out, maskStr(evs[i].Events))
	}
	sort.Strings(out)
	return strings.Join(out, ",")
}
func (s *simEnv) read(fd, n int) string {
	m, err := vsys.Read(fd, make([]byte, n))
	return errStr(m, err)
}
func (s *simEnv) write(fd, n int) string {
	m, err := vsys.Write(fd, make([]byte, n))
	return errStr(m, err)
}
func (s *simEnv) writev(fd, segs, each int) string {
	iov := make([][]byte, segs)
	for i := range iov {
		iov[i] = make([]byte, each)
	}
	m, err := vsys.Writev(fd, iov)
	return errStr(m, err)
}
func (s *simEnv) close(fd int) string { return errStr(0, vsys.Close(fd)) }
func (s *simEnv) dup(fd int) int      { n, _ := vsys.Dup(fd); return n }
func (s *simEnv) eventfd() int        { fd, _ := vsys.Eventfd(0, unix.EFD_NONBLOCK); return fd }
func (s *simEnv) efdWrite(fd int) string {
	var one = [8]byte{1}
	n, err := vsys.Write(fd, one[:])
	return errStr(n, err)
}
func (s *simEnv) efdRead(fd int) string {
	var b [8]byte
	n, err := vsys.Read(fd, b[:])
	return errStr(n, err)
}

// ---- scripts ----------------------------------------------------------------------

const (
	in    = unix.EPOLLIN | unix.EPOLLPRI
	out   = unix.EPOLLOUT
	et    = unix.EPOLLET
	rdhup = unix.EPOLLRDHUP
)

type script struct {
	name string
	run  func(e env, log func(string, ...any))
}

func scripts() []script {
	both := func(name string, f func(kind string, e env, log func(string, ...any))) []script {
		return []script{
			{name + "/unix", func(e env, l func(string, ...any)) { f("unix", e, l) }},
			{name + "/tcp", func(e env, l func(string, ...any)) { f("tcp", e, l) }},
		}
	}
	var s []script
	s = append(s, script{"udp-connected-icmp-unreachable/lt", func(e env, log func(string, ...any)) {
		fd := e.udpToClosedPort()
		ep := e.epollCreate()
		log("add %s", e.ctl(ep, unix.EPOLL_CTL_ADD, fd, in))
		log("idle %s", e.wait(ep))
		log("send %s", e.write(fd, 3))
		log("after-send %s", e.wait(ep))
		log("again %s", e.wait(ep))
		log("read %s", e.read(fd, 100))
		log("read-again %s", e.read(fd, 100))
		log("quiet %s", e.wait(ep))
		log("send2 %s", e.write(fd, 3))
		log("send3-reports-the-error %s", e.write(fd, 3))
		log("quiet2 %s", e.wait(ep))
	}}, script{"udp-connected-icmp-unreachable/et", func(e env, log func(string, ...any)) {
		fd := e.udpToClosedPort()
		ep := e.epollCreate()
		log("add %s", e.ctl(ep, unix.EPOLL_CTL_ADD, fd, in|out|et))
		log("first %s", e.wait(ep))
		log("second %s", e.wait(ep))
		log("send %s", e.write(fd, 3))
		log("after-send %s", e.wait(ep))
		log("again %s", e.wait(ep))
		log("read %s", e.read(fd, 100))
	}})
	s = append(s, both("et-add-writable", func(k string, e env, log func(string, ...any)) {
		fd, _ := e.pair(k)
		ep := e.epollCreate()
		log("add %s", e.ctl(ep, unix.EPOLL_CTL_ADD, fd, in|out|et|rdhup))
		log("wait1 %s", e.wait(ep))
		log("wait2 %s", e.wait(ep))
	})...)
	s = append(s, both("et-arrivals", func(k string, e env, log func(string, ...any)) {
		fd, p := e.pair(k)
		ep := e.epollCreate()
		e.ctl(ep, unix.EPOLL_CTL_ADD, fd, in|out|et|rdhup)
		e.wait(ep)
		p.send(10)
		log("after-send %s", e.wait(ep))
		log("again %s", e.wait(ep))
		p.send(5)
		log("second-arrival-unread %s", e.wait(ep))
		log("read %s", e.read(fd, 100))
		log("read-empty %s", e.read(fd, 100))
		log("idle %s", e.wait(ep))
	})...)
	s = append(s, both("lt-readable-until-drained", func(k string, e env, log func(string, ...any)) {
		fd, p := e.pair(k)
		ep := e.epollCreate()
		e.ctl(ep, unix.EPOLL_CTL_ADD, fd, in)
		log("idle %s", e.wait(ep))
		p.send(10)
		log("w1 %s", e.wait(ep))
		log("w2 %s", e.wait(ep))
		log("read-part %s", e.read(fd, 4))
		log("w3 %s", e.wait(ep))
		log("read-rest %s", e.read(fd, 100))
		log("w4 %s", e.wait(ep))
	})...)
	s = append(s, both("data-then-fin-lt", func(k string, e env, log func(string, ...any)) {
		fd, p := e.pair(k)
		ep := e.epollCreate()
		e.ctl(ep, unix.EPOLL_CTL_ADD, fd, in)
		p.send(7)
		p.close()
		log("wait %s", e.wait(ep))
		log("read %s", e.read(fd, 100))
		log("read-eof %s", e.read(fd, 100))
		log("read-eof2 %s", e.read(fd, 100))
	})...)
	s = append(s, both("fin-et-rdhup", func(k string, e env, log func(string, ...any)) {
		fd, p := e.pair(k)
		ep := e.epollCreate()
		e.ctl(ep, unix.EPOLL_CTL_ADD, fd, in|out|et|rdhup)
		e.wait(ep)
		p.send(3)
		p.close()
		log("wait %s", e.wait(ep))
		log("read %s", e.read(fd, 100))
		log("read-eof %s", e.read(fd, 100))
		log("after %s", e.wait(ep))
	})...)
	s = append(s, both("half-close", func(k string, e env, log func(string, ...any)) {
		fd, p := e.pair(k)
		ep := e.epollCreate()
		e.ctl(ep, unix.EPOLL_CTL_ADD, fd, in|rdhup)
		p.shutw()
		log("wait %s", e.wait(ep))
		log("read %s", e.read(fd, 10))
		log("write-still-ok %s", e.write(fd, 5))
		log("peer-got %d", p.recvAll())
	})...)
	s = append(s, both("mod-rearm", func(k string, e env, log func(string, ...any)) {
		fd, p := e.pair(k)
		ep := e.epollCreate()
		e.ctl(ep, unix.EPOLL_CTL_ADD, fd, in|et)
		p.send(4)
		log("w1 %s", e.wait(ep))
		log("w2 %s", e.wait(ep))
		log("mod %s", e.ctl(ep, unix.EPOLL_CTL_MOD, fd, in|out|et|rdhup))
		log("w3 %s", e.wait(ep))
		log("w4 %s", e.wait(ep))
	})...)
	s = append(s, both("write-after-peer-close", func(k string, e env, log func(string, ...any)) {
		fd, p := e.pair(k)
		ep := e.epollCreate()
		e.ctl(ep, unix.EPOLL_CTL_ADD, fd, in|out|rdhup)
		p.close()
		log("first-write %s", e.write(fd, 5))
		log("wait %s", e.wait(ep))
		log("second-write %s", e.write(fd, 5))
	})...)
	s = append(s, both("peer-closes-with-our-data-unread", func(k string, e env, log func(string, ...any)) {
		fd, p := e.pair(k)
		ep := e.epollCreate()
		e.ctl(ep, unix.EPOLL_CTL_ADD, fd, in|rdhup)
		log("write %s", e.write(fd, 9))
		p.close()
		log("wait %s", e.wait(ep))
		log("read %s", e.read(fd, 10))
		log("write-after %s", e.write(fd, 1))
	})...)
	s = append(s, both("ctl-errors", func(k string, e env, log func(string, ...any)) {
		fd, _ := e.pair(k)
		ep := e.epollCreate()
		log("mod-missing %s", e.ctl(ep, unix.EPOLL_CTL_MOD, fd, in))
		log("del-missing %s", e.ctl(ep, unix.EPOLL_CTL_DEL, fd, 0))
		log("add %s", e.ctl(ep, unix.EPOLL_CTL_ADD, fd, in))
		log("add-again %s", e.ctl(ep, unix.EPOLL_CTL_ADD, fd, in))
		log("del %s", e.ctl(ep, unix.EPOLL_CTL_DEL, fd, 0))
		log("close %s", e.close(fd))
		log("add-closed %s", e.ctl(ep, unix.EPOLL_CTL_ADD, fd, in))
		log("read-closed %s", e.read(fd, 1))
		log("write-closed %s", e.write(fd, 1))
		log("close-closed %s", e.close(fd))
	})...)
	s = append(s, both("close-removes-registration", func(k string, e env, log func(string, ...any)) {
		fd, p := e.pair(k)
		ep := e.epollCreate()
		e.ctl(ep, unix.EPOLL_CTL_ADD, fd, in)
		p.send(1)
		log("w1 %s", e.wait(ep))
		e.close(fd)
		log("w2 %s", e.wait(ep))
	})...)
	s = append(s, both("dup-keeps-registration", func(k string, e env, log func(string, ...any)) {
		fd, p := e.pair(k)
		ep := e.epollCreate()
		e.ctl(ep, unix.EPOLL_CTL_ADD, fd, in)
		d := e.dup(fd)
		e.close(fd)
		p.send(1)
		log("w1 %s", e.wait(ep))
		log("read-via-dup %s", e.read(d, 10))
		e.close(d)
		log("w2 %s", e.wait(ep))
	})...)
	s = append(s, both("writev-iov-max", func(k string, e env, log func(string, ...any)) {
		fd, _ := e.pair(k)
		log("1024 %s", e.writev(fd, 1024, 1))
		log("1025 %s", e.writev(fd, 1025, 1))
	})...)
	s = append(s, both("et-writable-edge-after-eagain", func(k string, e env, log func(string, ...any)) {
		fd, p := e.pair(k)
		ep := e.epollCreate()
		e.ctl(ep, unix.EPOLL_CTL_ADD, fd, in|out|et|rdhup)
		log("w0 %s", e.wait(ep))
		full := false
		for i := 0; i < 100000 && !full; i++ {
			if r := e.write(fd, 65536); r == "EAGAIN" {
				full = true
			}
		}
		log("filled %v", full)
		log("w1 %s", e.wait(ep))
		p.recvAll()
		p.recvAll()
		log("w2 %s", e.wait(ep))
		log("w3 %s", e.wait(ep))
	})...)
	s = append(s, both("lt-out-while-writable", func(k string, e env, log func(string, ...any)) {
		fd, _ := e.pair(k)
		ep := e.epollCreate()
		e.ctl(ep, unix.EPOLL_CTL_ADD, fd, in|out)
		log("w1 %s", e.wait(ep))
		log("w2 %s", e.wait(ep))
		log("mod-read-only %s", e.ctl(ep, unix.EPOLL_CTL_MOD, fd, in))
		log("w3 %s", e.wait(ep))
	})...)
	s = append(s, script{"eventfd-edges", func(e env, log func(string, ...any)) {
		fd := e.eventfd()
		ep := e.epollCreate()
		log("add %s", e.ctl(ep, unix.EPOLL_CTL_ADD, fd, in|et|rdhup))
		log("idle %s", e.wait(ep))
		log("read-empty %s", e.efdRead(fd))
		log("write %s", e.efdWrite(fd))
		log("w1 %s", e.wait(ep))
		log("w2 %s", e.wait(ep))
		log("write %s", e.efdWrite(fd))
		log("w3 %s", e.wait(ep))
		log("read %s", e.efdRead(fd))
		log("read-empty %s", e.efdRead(fd))
		log("w4 %s", e.wait(ep))
	}})
	return s
}

// Run executes every script on both kernels and reports disagreements.
func Run(verbose bool) (total, bad int) {
	for _, sc := range scripts() {
		var logs [2][]string
		for i, mk := range []func() env{func() env { return &realEnv{} }, func() env { return newSim() }} {
			e := mk()
			func() {
				defer func() {
					if r := recover(); r != nil {
						logs[i] = append(logs[i], fmt.Sprintf("PANIC %v", r))
					}
					e.done()
				}()
				sc.run(e, func(f string, a ...any) { logs[i] = append(logs[i], fmt.Sprintf(f, a...)) })
			}()
		}
		total++
		same := strings.Join(logs[0], "\n") == strings.Join(logs[1], "\n")
		if !same {
			bad++
			fmt.Fprintf(os.Stderr, "KERNEL-CONFORMANCE MISMATCH in %s\n  linux: %s\n  vsys : %s\n", sc.name, strings.Join(logs[0], " ; "), strings.Join(logs[1], " ; "))
		} else if verbose {
			fmt.Printf("ok %-40s %s\n", sc.name, strings.Join(logs[0], " ; "))
		}
	}
	return
}
