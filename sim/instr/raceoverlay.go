package instr

import (
	"encoding/json"
	"fmt"
	"os"
	"path/filepath"
	"strings"
)

// RaceRuntimeOverlay prepares the build overlay of the "+race" flavour: copies
// of two files of package runtime with two additions (nothing is written to
// the toolchain's directory; `go build -overlay` substitutes the copies):
//
//   - race_amd64.s, racecalladdr: a goroutine whose ignore depth (g.raceignore,
//     what runtime.RaceDisable raises) is non-zero reports no memory access to
//     the detector. Upstream only its synchronisation events are ignored.
//   - race.go: runtime.RaceIgnoreSwap(n) sets that depth and returns the old one.
//
// With them the harness can run "outside" the detector (see vsched/race_on.go).
func RaceRuntimeOverlay(goroot, outDir string) (string, error) {
	if err := os.MkdirAll(outDir, 0o755); err != nil {
		return "", err
	}
	asmPath := filepath.Join(goroot, "src", "runtime", "race_amd64.s")
	goPath := filepath.Join(goroot, "src", "runtime", "race.go")
	asm, err := os.ReadFile(asmPath)
	if err != nil {
		return "", err
	}
	const anchor = "TEXT\tracecalladdr<>(SB), NOSPLIT, $0-0\n"
	if strings.Count(string(asm), anchor) != 1 || !strings.Contains(string(asm), "\nret:\n\tRET\n") {
		return "", fmt.Errorf("runtime/race_amd64.s of this toolchain does not look as expected (racecalladdr)")
	}
	asm2 := strings.Replace(string(asm), anchor, anchor+
		"\t// verif: a goroutine with a non-zero ignore depth is ignored altogether\n"+
		"\tCMPB\tg_raceignore(R14), $0\n\tJNE\tret\n", 1)
	src, err := os.ReadFile(goPath)
	if err != nil {
		return "", err
	}
	if !strings.Contains(string(src), "func RaceDisable() {") || !strings.Contains(string(src), "__tsan_go_ignore_sync_begin") {
		return "", fmt.Errorf("runtime/race.go of this toolchain does not look as expected (RaceDisable)")
	}
	src2 := string(src) + `
// RaceIgnoreSwap sets the ignore depth of the current goroutine (what
// RaceDisable raises and RaceEnable lowers) and returns the previous depth.
// Added by the verification harness through a build overlay.
//
//go:nosplit
func RaceIgnoreSwap(n int8) int8 {
	gp := getg()
	old := gp.raceignore
	if old == 0 && n != 0 {
		racecall(&__tsan_go_ignore_sync_begin, gp.racectx, 0, 0, 0)
	}
	if old != 0 && n == 0 {
		racecall(&__tsan_go_ignore_sync_end, gp.racectx, 0, 0, 0)
	}
	gp.raceignore = n
	return old
}
`
	a2, g2 := filepath.Join(outDir, "race_amd64.s"), filepath.Join(outDir, "race.go")
	if err := os.WriteFile(a2, []byte(asm2), 0o644); err != nil {
		return "", err
	}
	if err := os.WriteFile(g2, []byte(src2), 0o644); err != nil {
		return "", err
	}
	b, _ := json.MarshalIndent(map[string]any{"Replace": map[string]string{asmPath: a2, goPath: g2}}, "", " ")
	ov := filepath.Join(outDir, "overlay.json")
	return ov, os.WriteFile(ov, b, 0o644)
}
