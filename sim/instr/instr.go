// Package instr is the check-time instrumenter: it copies the repository's
// current working tree to a scratch directory and redirects, purely at call
// boundaries, every source of nondeterminism to the simulator (DESIGN.md §2.1):
//
//	R1 unix.F / syscall.F / os.RemoveAll      -> vsys.F        (simulated kernel)
//	R2 atomic.X (calls and types)             -> vatomic.X     (yield + real atomic)
//	R3 x.Go(f), go stmt, worker-pool Submit   -> tasks registered with the scheduler
//	R4 net.Dial, net.{TCP,Unix,UDP}Conn, net.InterfaceBy* -> vnet
//	R5 for ... range <map>                    -> seed-ordered key list
//	R6 channel receives, select clauses, x.Wait() -> followed by a post-block yield
//	R7 tuning constants                       -> small values in the "small" knob flavour
//	R9 sync.Pool                              -> vpool.Pool (deterministic LIFO)
//	R10 sync.Mutex / RWMutex / Once           -> vsync (blocking through the scheduler)
//
// No statement of gnet is reordered or removed.
package instr

import (
	"bytes"
	"fmt"
	"go/ast"
	"go/build"
	"go/format"
	"go/parser"
	"go/token"
	"go/types"
	"os"
	"path/filepath"
	"regexp"
	"sort"
	"strconv"
	"strings"
)

const (
	pVsys    = "verif/sim/vsys"
	pVatomic = "verif/sim/vatomic"
	pVsched  = "verif/sim/vsched"
	pVnet    = "verif/sim/vnet"
	pVpool   = "verif/sim/vpool"
	pVsync   = "verif/sim/vsync"
)

var sysFuncs = map[string]bool{}

func init() {
	for _, f := range strings.Fields(`Read Write Writev Readv Close Accept4 Accept Socket Bind Listen Connect
		EpollCreate1 EpollCtl EpollWait Eventfd Recvfrom Sendto Send FcntlInt Dup CloseOnExec SetNonblock
		GetsockoptInt Getsockname Getpeername Shutdown
		SetsockoptInt SetsockoptLinger SetsockoptInet4Addr SetsockoptIPv6Mreq SetsockoptIPMreq SetsockoptByte
		SetsockoptString BindToDevice Syscall6 RawSyscall6`) {
		sysFuncs[f] = true
	}
}

// pureSysFuncs are functions of x/sys/unix and syscall that do not enter the
// kernel with a descriptor (conversions, helpers): calling them from simulated
// code is harmless.
var pureSysFuncs = map[string]bool{}

func init() {
	for _, f := range strings.Fields(`Errno ErrnoName Signal SignalName ByteSliceFromString BytePtrFromString
		Getpagesize Getpid Gettid Getuid Getenv IoctlGetInt ParseSocketControlMessage CmsgSpace CmsgLen
		Handle CloseHandle SysctlUint32 Kqueue Kevent Pipe2 RawSyscall`) {
		pureSysFuncs[f] = true
	}
}

// Report says what was rewritten (evidence and self-checks).
type Report struct {
	Files    int
	Rewrites map[string]int
	Skipped  []string
	// Unmodelled lists calls into x/sys/unix or syscall that the simulated
	// kernel has no counterpart for: they would reach the real kernel with a
	// simulated descriptor number, so a tree containing one cannot be judged.
	Unmodelled []string
}

type knob struct {
	file string
	re   *regexp.Regexp
	repl string
}

var smallKnobs = []knob{
	{"pkg/netpoll/defs_poller_epoll.go", regexp.MustCompile(`(?m)^(\s*InitPollEventsCap\s*=\s*)\d+`), "${1}2"},
	{"pkg/netpoll/defs_poller_epoll.go", regexp.MustCompile(`(?m)^(\s*MaxPollEventsCap\s*=\s*)\d+`), "${1}8"},
	{"pkg/netpoll/defs_poller_epoll.go", regexp.MustCompile(`(?m)^(\s*MinPollEventsCap\s*=\s*)\d+`), "${1}1"},
	{"pkg/netpoll/defs_poller_epoll.go", regexp.MustCompile(`(?m)^(\s*MaxAsyncTasksAtOneTime\s*=\s*)\d+`), "${1}3"},
	{"eventloop_unix.go", regexp.MustCompile(`(?m)^(const iovMax\s*=\s*)\d+`), "${1}4"},
	// the ring-buffer pool re-calibrates the largest capacity it keeps after this many Puts of one size class
	{"pkg/pool/ringbuffer/ringbuffer.go", regexp.MustCompile(`(?m)^(\s*calibrateCallsThreshold\s*=\s*)\d+`), "${1}12"},
}

// Options of one instrumentation.
type Options struct {
	Tags       []string // build tags of the variant (poll_opt, gc_opt)
	SmallKnobs bool
	Race       bool              // rule R11: exported functions switch the goroutine to "gnet context" (race flavour)
	Inject     map[string]string // relative path -> file content to add (export files)
}

// Instrument copies src to dst and rewrites the files selected by the build
// context (linux/amd64 + tags).
func Instrument(src, dst string, opt Options) (*Report, error) {
	rep := &Report{Rewrites: map[string]int{}}
	ctx := build.Default
	ctx.GOOS, ctx.GOARCH = "linux", "amd64"
	ctx.BuildTags = append([]string{}, opt.Tags...)
	ctx.CgoEnabled = false

	modPath := ""
	if b, err := os.ReadFile(filepath.Join(src, "go.mod")); err == nil {
		for _, l := range strings.Split(string(b), "\n") {
			if strings.HasPrefix(l, "module ") {
				modPath = strings.TrimSpace(strings.TrimPrefix(l, "module "))
			}
		}
	}
	if modPath == "" {
		return nil, fmt.Errorf("no module path in %s/go.mod", src)
	}

	// collect package directories
	type pkgFiles struct {
		dir   string
		files []string // selected by the build context
		other []string // copied unchanged
	}
	pkgs := map[string]*pkgFiles{}
	err := filepath.Walk(src, func(p string, info os.FileInfo, err error) error {
		if err != nil {
			return err
		}
		rel, _ := filepath.Rel(src, p)
		if info.IsDir() {
			if strings.HasPrefix(info.Name(), ".") && rel != "." || info.Name() == "testdata" {
				return filepath.SkipDir
			}
			return os.MkdirAll(filepath.Join(dst, rel), 0o755)
		}
		if rel == "go.mod" || rel == "go.sum" {
			b, err := os.ReadFile(p)
			if err != nil {
				return err
			}
			return os.WriteFile(filepath.Join(dst, rel), b, 0o644)
		}
		if !strings.HasSuffix(p, ".go") || strings.HasSuffix(p, "_test.go") {
			return nil
		}
		d := filepath.Dir(rel)
		pf := pkgs[d]
		if pf == nil {
			pf = &pkgFiles{dir: d}
			pkgs[d] = pf
		}
		ok, merr := ctx.MatchFile(filepath.Dir(p), info.Name())
		if merr == nil && ok {
			pf.files = append(pf.files, rel)
		} else {
			pf.other = append(pf.other, rel)
		}
		return nil
	})
	if err != nil {
		return nil, err
	}

	fset := token.NewFileSet()
	parsed := map[string][]*ast.File{} // dir -> files
	names := map[*ast.File]string{}
	for d, pf := range pkgs {
		sort.Strings(pf.files)
		for _, rel := range pf.files {
			b, err := os.ReadFile(filepath.Join(src, rel))
			if err != nil {
				return nil, err
			}
			if opt.SmallKnobs {
				for _, k := range smallKnobs {
					if rel == k.file && k.re.Match(b) {
						b = k.re.ReplaceAll(b, []byte(k.repl))
						rep.Rewrites["R7-knob"]++
					}
				}
			}
			f, err := parser.ParseFile(fset, filepath.Join(src, rel), b, parser.ParseComments)
			if err != nil {
				return nil, fmt.Errorf("parse %s: %v", rel, err)
			}
			parsed[d] = append(parsed[d], f)
			names[f] = rel
		}
		for _, rel := range pf.other {
			b, err := os.ReadFile(filepath.Join(src, rel))
			if err != nil {
				return nil, err
			}
			if err := os.WriteFile(filepath.Join(dst, rel), b, 0o644); err != nil {
				return nil, err
			}
		}
	}

	// lenient type information (only used to recognise ranges over maps)
	tc := &typeChecker{fset: fset, modPath: modPath, parsed: parsed, done: map[string]*types.Package{}, infos: map[string]*types.Info{}}
	dirs := make([]string, 0, len(parsed))
	for d := range parsed {
		dirs = append(dirs, d)
	}
	sort.Strings(dirs)
	for _, d := range dirs {
		tc.check(d)
	}

	for _, d := range dirs {
		info := tc.infos[d]
		for _, f := range parsed[d] {
			rel := names[f]
			rw := &rewriter{fset: fset, file: f, rel: rel, dir: d, info: info, rep: rep, isRoot: d == ".", race: opt.Race}
			rw.run()
			var buf bytes.Buffer
			if err := format.Node(&buf, fset, f); err != nil {
				return nil, fmt.Errorf("print %s: %v", rel, err)
			}
			if err := os.WriteFile(filepath.Join(dst, rel), buf.Bytes(), 0o644); err != nil {
				return nil, err
			}
			rep.Files++
		}
	}
	for rel, content := range opt.Inject {
		if err := os.MkdirAll(filepath.Dir(filepath.Join(dst, rel)), 0o755); err != nil {
			return nil, err
		}
		if err := os.WriteFile(filepath.Join(dst, rel), []byte(content), 0o644); err != nil {
			return nil, err
		}
	}
	return rep, nil
}

// ---- lenient type checking --------------------------------------------------

type typeChecker struct {
	fset    *token.FileSet
	modPath string
	parsed  map[string][]*ast.File
	done    map[string]*types.Package
	infos   map[string]*types.Info
}

func (tc *typeChecker) Import(path string) (*types.Package, error) {
	if path == "unsafe" {
		return types.Unsafe, nil
	}
	if path == tc.modPath || strings.HasPrefix(path, tc.modPath+"/") {
		d := strings.TrimPrefix(strings.TrimPrefix(path, tc.modPath), "/")
		if d == "" {
			d = "."
		}
		if p := tc.check(d); p != nil {
			return p, nil
		}
	}
	name := path[strings.LastIndex(path, "/")+1:]
	p := types.NewPackage(path, name)
	p.MarkComplete()
	return p, nil
}

func (tc *typeChecker) check(dir string) *types.Package {
	if p, ok := tc.done[dir]; ok {
		return p
	}
	files := tc.parsed[dir]
	if len(files) == 0 {
		return nil
	}
	tc.done[dir] = nil // cycle guard
	info := &types.Info{Types: map[ast.Expr]types.TypeAndValue{}}
	conf := types.Config{Importer: tc, Error: func(error) {}, FakeImportC: true, DisableUnusedImportCheck: true}
	path := tc.modPath
	if dir != "." {
		path += "/" + dir
	}
	p, _ := conf.Check(path, tc.fset, files, info)
	tc.done[dir] = p
	tc.infos[dir] = info
	return p
}

// ---- rewriting --------------------------------------------------------------

type rewriter struct {
	fset       *token.FileSet
	file       *ast.File
	rel        string
	dir        string
	info       *types.Info
	rep        *Report
	isRoot     bool
	imports    map[string]string // local name -> path
	need       map[string]bool   // sim packages to import
	usedBefore map[string]bool
	tmp        int
	race       bool
}

func (rw *rewriter) pkgOf(x ast.Expr) string {
	id, ok := x.(*ast.Ident)
	if !ok || id.Obj != nil {
		return ""
	}
	return rw.imports[id.Name]
}

func (rw *rewriter) use(pkg string) *ast.Ident {
	rw.need[pkg] = true
	return ast.NewIdent(pkg[strings.LastIndex(pkg, "/")+1:])
}

func (rw *rewriter) count(rule string) { rw.rep.Rewrites[rule]++ }

func (rw *rewriter) run() {
	rw.imports = map[string]string{}
	rw.need = map[string]bool{}
	for _, im := range rw.file.Imports {
		p, _ := strconv.Unquote(im.Path.Value)
		name := p[strings.LastIndex(p, "/")+1:]
		if im.Name != nil {
			name = im.Name.Name
		}
		if name == "v2" {
			name = "gnet"
		}
		rw.imports[name] = p
	}
	noAtomic := strings.HasPrefix(rw.dir, "pkg/logging")
	rw.usedBefore = rw.usedNames()

	// pass 1: statement-level rewrites that need list context (R3 go stmt, R5, R6 2-value receives, select)
	ast.Inspect(rw.file, func(n ast.Node) bool {
		switch b := n.(type) {
		case *ast.BlockStmt:
			b.List = rw.stmtList(b.List)
		case *ast.CaseClause:
			b.Body = rw.stmtList(b.Body)
		case *ast.CommClause:
			b.Body = rw.stmtList(b.Body)
			// R6: a select clause that was chosen after blocking
			b.Body = append([]ast.Stmt{rw.yieldStmt("post-block")}, b.Body...)
			rw.count("R6-select")
		}
		return true
	})

	// pass 2: expression-level rewrites
	var commRecv = map[ast.Expr]bool{}
	ast.Inspect(rw.file, func(n ast.Node) bool {
		if cc, ok := n.(*ast.CommClause); ok && cc.Comm != nil {
			switch s := cc.Comm.(type) {
			case *ast.ExprStmt:
				commRecv[s.X] = true
			case *ast.AssignStmt:
				for _, r := range s.Rhs {
					commRecv[r] = true
				}
			}
		}
		if as, ok := n.(*ast.AssignStmt); ok && len(as.Lhs) == 2 && len(as.Rhs) == 1 {
			commRecv[as.Rhs[0]] = true // v, ok := <-ch handled at statement level
		}
		return true
	})
	ast.Inspect(rw.file, func(n ast.Node) bool {
		if call, ok := n.(*ast.CallExpr); ok {
			if sel, ok := call.Fun.(*ast.SelectorExpr); ok {
				switch rw.pkgOf(sel.X) {
				case "golang.org/x/sys/unix", "syscall":
					if n := sel.Sel.Name; !sysFuncs[n] && !pureSysFuncs[n] && !strings.HasPrefix(n, "Sockaddr") {
						rw.rep.Unmodelled = append(rw.rep.Unmodelled, fmt.Sprintf("%s: %s.%s", rw.fset.Position(call.Pos()), rw.pkgOf(sel.X), n))
					}
				case "net":
					// only net.Dial goes through the simulated network (R4)
					if n := sel.Sel.Name; n != "Dial" && (strings.HasPrefix(n, "Dial") || strings.HasPrefix(n, "Listen") || strings.HasPrefix(n, "File")) {
						rw.rep.Unmodelled = append(rw.rep.Unmodelled, fmt.Sprintf("%s: net.%s", rw.fset.Position(call.Pos()), n))
					}
				}
			}
		}
		return true
	})
	rewriteExprs(rw.file, func(e ast.Expr) ast.Expr {
		switch x := e.(type) {
		case *ast.SelectorExpr:
			switch rw.pkgOf(x.X) {
			case "golang.org/x/sys/unix", "syscall":
				if sysFuncs[x.Sel.Name] {
					x.X = rw.use(pVsys)
					rw.count("R1-syscall")
				}
			case "os":
				if x.Sel.Name == "RemoveAll" {
					x.X = rw.use(pVsys)
					rw.count("R1-removeall")
				}
			case "sync":
				if x.Sel.Name == "Pool" && !noAtomic {
					x.X = rw.use(pVpool)
					rw.count("R9-pool")
				}
				if (x.Sel.Name == "Mutex" || x.Sel.Name == "RWMutex" || x.Sel.Name == "Once") && !noAtomic {
					// R10: locks block through the scheduler (a task holding a lock across a
					// scheduling point must not hang the one that waits for it)
					x.X = rw.use(pVsync)
					rw.count("R10-lock")
				}
			case "sync/atomic":
				if !noAtomic {
					x.X = rw.use(pVatomic)
					rw.count("R2-atomic")
				}
			case "net":
				switch x.Sel.Name {
				case "Dial", "DialTCP", "DialUDP", "DialUnix", "DialTimeout":
					if rw.isRoot {
						x.X = rw.use(pVnet)
						rw.count("R4-dial")
					}
				case "TCPConn", "UnixConn", "UDPConn":
					if rw.isRoot {
						x.X = rw.use(pVnet)
						rw.count("R4-conntype")
					}
				case "InterfaceByName", "InterfaceByIndex":
					x.X = rw.use(pVnet)
					rw.count("R4-iface")
				}
			}
		case *ast.CallExpr:
			if sel, ok := x.Fun.(*ast.SelectorExpr); ok {
				// R3: worker pool
				if sel.Sel.Name == "Submit" && len(x.Args) == 1 {
					if inner, ok := sel.X.(*ast.SelectorExpr); ok && inner.Sel.Name == "DefaultWorkerPool" {
						x.Fun = &ast.SelectorExpr{X: rw.use(pVsched), Sel: ast.NewIdent("Submit")}
						rw.count("R3-submit")
						return x
					}
				}
				// R3: errgroup-style spawn
				if sel.Sel.Name == "Go" && len(x.Args) == 1 && rw.pkgOf(sel.X) == "" {
					name := "fn" + strconv.Itoa(rw.fset.Position(x.Pos()).Line)
					if a, ok := x.Args[0].(*ast.SelectorExpr); ok {
						name = a.Sel.Name
					}
					x.Args[0] = &ast.CallExpr{
						Fun:  &ast.SelectorExpr{X: rw.use(pVsched), Sel: ast.NewIdent("WrapErr")},
						Args: []ast.Expr{&ast.BasicLit{Kind: token.STRING, Value: strconv.Quote(name)}, x.Args[0]},
					}
					rw.count("R3-go")
					return x
				}
				// R6: errgroup / waitgroup Wait
				if sel.Sel.Name == "Wait" && len(x.Args) == 0 && rw.pkgOf(sel.X) == "" {
					rw.count("R6-wait")
					return &ast.CallExpr{Fun: &ast.SelectorExpr{X: rw.use(pVsched), Sel: ast.NewIdent("AfterWait")}, Args: []ast.Expr{x}}
				}
			}
		case *ast.UnaryExpr:
			if x.Op == token.ARROW && !commRecv[x] {
				rw.count("R6-recv")
				return &ast.CallExpr{Fun: &ast.SelectorExpr{X: rw.use(pVsched), Sel: ast.NewIdent("AfterRecv")}, Args: []ast.Expr{x}}
			}
		}
		return e
	})

	if rw.race {
		rw.enterGnet()
	}
	rw.fixImports()
}

func (rw *rewriter) yieldStmt(site string) ast.Stmt {
	return &ast.ExprStmt{X: &ast.CallExpr{
		Fun:  &ast.SelectorExpr{X: rw.use(pVsched), Sel: ast.NewIdent("Yield")},
		Args: []ast.Expr{&ast.BasicLit{Kind: token.STRING, Value: strconv.Quote(site)}},
	}}
}

func isSimpleExpr(e ast.Expr) bool {
	switch x := e.(type) {
	case *ast.Ident:
		return true
	case *ast.SelectorExpr:
		return isSimpleExpr(x.X)
	case *ast.ParenExpr:
		return isSimpleExpr(x.X)
	}
	return false
}

func (rw *rewriter) stmtList(list []ast.Stmt) []ast.Stmt {
	var out []ast.Stmt
	for _, s := range list {
		switch st := s.(type) {
		case *ast.GoStmt:
			// R3: go f(x)  ->  vsched.GoStmt(func() { f(x) })
			call := &ast.CallExpr{
				Fun:  &ast.SelectorExpr{X: rw.use(pVsched), Sel: ast.NewIdent("GoStmt")},
				Args: []ast.Expr{&ast.FuncLit{Type: &ast.FuncType{Params: &ast.FieldList{}}, Body: &ast.BlockStmt{List: []ast.Stmt{&ast.ExprStmt{X: st.Call}}}}},
			}
			out = append(out, &ast.ExprStmt{X: call})
			rw.count("R3-gostmt")
			continue
		case *ast.AssignStmt:
			// R6: v, ok := <-ch
			if len(st.Lhs) == 2 && len(st.Rhs) == 1 {
				if u, ok := st.Rhs[0].(*ast.UnaryExpr); ok && u.Op == token.ARROW {
					out = append(out, s, rw.yieldStmt("post-block"))
					rw.count("R6-recv2")
					continue
				}
			}
		case *ast.RangeStmt:
			rw.rangeMap(st)
		case *ast.LabeledStmt:
			if r, ok := st.Stmt.(*ast.RangeStmt); ok {
				rw.rangeMap(r)
			}
		}
		out = append(out, s)
	}
	return out
}

// rangeMap rewrites `for k, v := range M` over a map (R5).
func (rw *rewriter) rangeMap(st *ast.RangeStmt) {
	if rw.info == nil {
		return
	}
	tv, ok := rw.info.Types[st.X]
	if !ok || tv.Type == nil {
		return
	}
	if _, isMap := tv.Type.Underlying().(*types.Map); !isMap {
		return
	}
	if st.Tok != token.DEFINE && st.Key != nil || !isSimpleExpr(st.X) {
		rw.rep.Skipped = append(rw.rep.Skipped, fmt.Sprintf("%s: range over map not rewritten", rw.fset.Position(st.Pos())))
		return
	}
	rw.tmp++
	kname := fmt.Sprintf("verifK%d", rw.tmp)
	m := st.X
	var pre []ast.Stmt
	keyIdent := func(e ast.Expr) *ast.Ident {
		if id, ok := e.(*ast.Ident); ok && id.Name != "_" {
			return id
		}
		return nil
	}
	// v, ok := M[k]; if !ok { continue }
	okName := fmt.Sprintf("verifOK%d", rw.tmp)
	vIdent := ast.NewIdent("_")
	if st.Value != nil {
		if id := keyIdent(st.Value); id != nil {
			vIdent = ast.NewIdent(id.Name)
		}
	}
	pre = append(pre, &ast.AssignStmt{
		Lhs: []ast.Expr{vIdent, ast.NewIdent(okName)}, Tok: token.DEFINE,
		Rhs: []ast.Expr{&ast.IndexExpr{X: m, Index: ast.NewIdent(kname)}},
	})
	pre = append(pre, &ast.IfStmt{
		Cond: &ast.UnaryExpr{Op: token.NOT, X: ast.NewIdent(okName)},
		Body: &ast.BlockStmt{List: []ast.Stmt{&ast.BranchStmt{Tok: token.CONTINUE}}},
	})
	if st.Key != nil {
		if id := keyIdent(st.Key); id != nil {
			pre = append(pre, &ast.AssignStmt{Lhs: []ast.Expr{ast.NewIdent(id.Name)}, Tok: token.DEFINE, Rhs: []ast.Expr{ast.NewIdent(kname)}})
			// silence "declared and not used" when the body does not use the key
			pre = append(pre, &ast.AssignStmt{Lhs: []ast.Expr{ast.NewIdent("_")}, Tok: token.ASSIGN, Rhs: []ast.Expr{ast.NewIdent(id.Name)}})
		}
	}
	st.Key = ast.NewIdent("_")
	st.Value = ast.NewIdent(kname)
	st.Tok = token.DEFINE
	st.X = &ast.CallExpr{Fun: &ast.SelectorExpr{X: rw.use(pVsched), Sel: ast.NewIdent("MapKeys")}, Args: []ast.Expr{m}}
	st.Body.List = append(pre, st.Body.List...)
	rw.count("R5-maprange")
}

// enterGnet (rule R11, race flavour only): the harness runs outside the race
// detector ("harness context"); whatever it calls in the code under test must
// be seen by the detector again. Every exported function or method of the
// gnet packages therefore starts with
//
//	defer vsched.Restore(vsched.EnterGnet())
//
// which is a no-op when the caller is the code under test itself.
func (rw *rewriter) enterGnet() {
	for _, d := range rw.file.Decls {
		fd, ok := d.(*ast.FuncDecl)
		if !ok || fd.Body == nil || !ast.IsExported(fd.Name.Name) {
			continue
		}
		st := &ast.DeferStmt{Call: &ast.CallExpr{
			Fun:  &ast.SelectorExpr{X: rw.use(pVsched), Sel: ast.NewIdent("Restore")},
			Args: []ast.Expr{&ast.CallExpr{Fun: &ast.SelectorExpr{X: rw.use(pVsched), Sel: ast.NewIdent("EnterGnet")}}},
		}}
		fd.Body.List = append([]ast.Stmt{st}, fd.Body.List...)
		rw.count("R11-enter-gnet")
	}
}

func (rw *rewriter) usedNames() map[string]bool {
	used := map[string]bool{}
	ast.Inspect(rw.file, func(n ast.Node) bool {
		if sel, ok := n.(*ast.SelectorExpr); ok {
			if id, ok := sel.X.(*ast.Ident); ok && id.Obj == nil {
				used[id.Name] = true
			}
		}
		return true
	})
	return used
}

func (rw *rewriter) fixImports() {
	// which import names are still referenced?
	used := rw.usedNames()
	var firstImport *ast.GenDecl
	for _, d := range rw.file.Decls {
		gd, ok := d.(*ast.GenDecl)
		if !ok || gd.Tok != token.IMPORT {
			continue
		}
		if firstImport == nil {
			firstImport = gd
		}
		var specs []ast.Spec
		for _, sp := range gd.Specs {
			im := sp.(*ast.ImportSpec)
			p, _ := strconv.Unquote(im.Path.Value)
			name := p[strings.LastIndex(p, "/")+1:]
			if im.Name != nil {
				name = im.Name.Name
			}
			if name == "_" || name == "." || used[name] {
				specs = append(specs, sp)
				continue
			}
			// only drop imports that the rewriting itself made unused
			if rw.usedBefore[name] {
				continue
			}
			specs = append(specs, sp)
		}
		gd.Specs = specs
	}
	if len(rw.need) == 0 {
		return
	}
	var paths []string
	for p := range rw.need {
		paths = append(paths, p)
	}
	sort.Strings(paths)
	if firstImport == nil {
		firstImport = &ast.GenDecl{Tok: token.IMPORT, Lparen: 1}
		rw.file.Decls = append([]ast.Decl{firstImport}, rw.file.Decls...)
	}
	if !firstImport.Lparen.IsValid() {
		firstImport.Lparen = firstImport.Pos()
	}
	for _, p := range paths {
		firstImport.Specs = append(firstImport.Specs, &ast.ImportSpec{Path: &ast.BasicLit{Kind: token.STRING, Value: strconv.Quote(p)}})
	}
	// drop now-empty import declarations
	var decls []ast.Decl
	for _, d := range rw.file.Decls {
		if gd, ok := d.(*ast.GenDecl); ok && gd.Tok == token.IMPORT && len(gd.Specs) == 0 {
			continue
		}
		decls = append(decls, d)
	}
	rw.file.Decls = decls
}
