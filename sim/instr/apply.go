package instr

import (
	"go/ast"
	"reflect"
)

var exprType = reflect.TypeOf((*ast.Expr)(nil)).Elem()

// rewriteExprs walks the tree below root in post-order and replaces every
// expression e by f(e). It is a small reflection-based stand-in for
// astutil.Apply (kept local so that the harness module does not pull newer
// golang.org/x versions into the build of the code under test).
func rewriteExprs(root ast.Node, f func(ast.Expr) ast.Expr) {
	seen := map[any]bool{}
	var walk func(v reflect.Value)
	walk = func(v reflect.Value) {
		switch v.Kind() {
		case reflect.Interface:
			if v.IsNil() {
				return
			}
			walk(v.Elem())
		case reflect.Ptr:
			if v.IsNil() {
				return
			}
			if _, isObj := v.Interface().(*ast.Object); isObj {
				return
			}
			if _, isScope := v.Interface().(*ast.Scope); isScope {
				return
			}
			if seen[v.Interface()] {
				return
			}
			seen[v.Interface()] = true
			walk(v.Elem())
		case reflect.Struct:
			for i := 0; i < v.NumField(); i++ {
				fld := v.Field(i)
				if !fld.CanSet() {
					continue
				}
				if fld.Type() == exprType {
					if fld.IsNil() {
						continue
					}
					walk(fld)
					if ne := f(fld.Interface().(ast.Expr)); ne != nil {
						fld.Set(reflect.ValueOf(ne))
					}
					continue
				}
				walk(fld)
			}
		case reflect.Slice:
			for i := 0; i < v.Len(); i++ {
				el := v.Index(i)
				if el.Type() == exprType {
					if el.IsNil() {
						continue
					}
					walk(el)
					if ne := f(el.Interface().(ast.Expr)); ne != nil {
						el.Set(reflect.ValueOf(ne))
					}
					continue
				}
				walk(el)
			}
		}
	}
	walk(reflect.ValueOf(root))
}
