// Package vatomic mirrors the complete sync/atomic API; every operation is a
// scheduling point followed by the real atomic operation. The instrumenter
// redirects `atomic.X` selectors of the gnet packages here (rule R2), so a
// change that switches to another atomic primitive still compiles and still
// yields.
package vatomic

import (
	"sync/atomic"
	"unsafe"

	"verif/sim/vsched"
)

func y(kind string) { vsched.Yield("atomic:" + kind) }

func AddInt32(addr *int32, delta int32) int32         { y("add"); return atomic.AddInt32(addr, delta) }
func AddInt64(addr *int64, delta int64) int64         { y("add"); return atomic.AddInt64(addr, delta) }
func AddUint32(addr *uint32, delta uint32) uint32     { y("add"); return atomic.AddUint32(addr, delta) }
func AddUint64(addr *uint64, delta uint64) uint64     { y("add"); return atomic.AddUint64(addr, delta) }
func AddUintptr(addr *uintptr, d uintptr) uintptr     { y("add"); return atomic.AddUintptr(addr, d) }
func AndInt32(addr *int32, mask int32) int32          { y("add"); return atomic.AndInt32(addr, mask) }
func AndInt64(addr *int64, mask int64) int64          { y("add"); return atomic.AndInt64(addr, mask) }
func AndUint32(addr *uint32, mask uint32) uint32      { y("add"); return atomic.AndUint32(addr, mask) }
func AndUint64(addr *uint64, mask uint64) uint64      { y("add"); return atomic.AndUint64(addr, mask) }
func AndUintptr(addr *uintptr, m uintptr) uintptr     { y("add"); return atomic.AndUintptr(addr, m) }
func OrInt32(addr *int32, mask int32) int32           { y("add"); return atomic.OrInt32(addr, mask) }
func OrInt64(addr *int64, mask int64) int64           { y("add"); return atomic.OrInt64(addr, mask) }
func OrUint32(addr *uint32, mask uint32) uint32       { y("add"); return atomic.OrUint32(addr, mask) }
func OrUint64(addr *uint64, mask uint64) uint64       { y("add"); return atomic.OrUint64(addr, mask) }
func OrUintptr(addr *uintptr, m uintptr) uintptr      { y("add"); return atomic.OrUintptr(addr, m) }
func LoadInt32(addr *int32) int32                     { y("load"); return atomic.LoadInt32(addr) }
func LoadInt64(addr *int64) int64                     { y("load"); return atomic.LoadInt64(addr) }
func LoadUint32(addr *uint32) uint32                  { y("load"); return atomic.LoadUint32(addr) }
func LoadUint64(addr *uint64) uint64                  { y("load"); return atomic.LoadUint64(addr) }
func LoadUintptr(addr *uintptr) uintptr               { y("load"); return atomic.LoadUintptr(addr) }
func LoadPointer(addr *unsafe.Pointer) unsafe.Pointer { y("load"); return atomic.LoadPointer(addr) }
func StoreInt32(addr *int32, val int32)               { y("store"); atomic.StoreInt32(addr, val) }
func StoreInt64(addr *int64, val int64)               { y("store"); atomic.StoreInt64(addr, val) }
func StoreUint32(addr *uint32, val uint32)            { y("store"); atomic.StoreUint32(addr, val) }
func StoreUint64(addr *uint64, val uint64)            { y("store"); atomic.StoreUint64(addr, val) }
func StoreUintptr(addr *uintptr, val uintptr)         { y("store"); atomic.StoreUintptr(addr, val) }
func StorePointer(addr *unsafe.Pointer, val unsafe.Pointer) {
	y("store")
	atomic.StorePointer(addr, val)
}
func SwapInt32(addr *int32, new int32) int32         { y("swap"); return atomic.SwapInt32(addr, new) }
func SwapInt64(addr *int64, new int64) int64         { y("swap"); return atomic.SwapInt64(addr, new) }
func SwapUint32(addr *uint32, new uint32) uint32     { y("swap"); return atomic.SwapUint32(addr, new) }
func SwapUint64(addr *uint64, new uint64) uint64     { y("swap"); return atomic.SwapUint64(addr, new) }
func SwapUintptr(addr *uintptr, new uintptr) uintptr { y("swap"); return atomic.SwapUintptr(addr, new) }
func SwapPointer(addr *unsafe.Pointer, new unsafe.Pointer) unsafe.Pointer {
	y("swap")
	return atomic.SwapPointer(addr, new)
}
func CompareAndSwapInt32(addr *int32, old, new int32) bool {
	y("cas")
	return atomic.CompareAndSwapInt32(addr, old, new)
}
func CompareAndSwapInt64(addr *int64, old, new int64) bool {
	y("cas")
	return atomic.CompareAndSwapInt64(addr, old, new)
}
func CompareAndSwapUint32(addr *uint32, old, new uint32) bool {
	y("cas")
	return atomic.CompareAndSwapUint32(addr, old, new)
}
func CompareAndSwapUint64(addr *uint64, old, new uint64) bool {
	y("cas")
	return atomic.CompareAndSwapUint64(addr, old, new)
}
func CompareAndSwapUintptr(addr *uintptr, old, new uintptr) bool {
	y("cas")
	return atomic.CompareAndSwapUintptr(addr, old, new)
}
func CompareAndSwapPointer(addr *unsafe.Pointer, old, new unsafe.Pointer) bool {
	y("cas")
	return atomic.CompareAndSwapPointer(addr, old, new)
}

type Bool struct{ v atomic.Bool }

func (x *Bool) Load() bool                        { y("load"); return x.v.Load() }
func (x *Bool) Store(val bool)                    { y("store"); x.v.Store(val) }
func (x *Bool) Swap(new bool) bool                { y("swap"); return x.v.Swap(new) }
func (x *Bool) CompareAndSwap(old, new bool) bool { y("cas"); return x.v.CompareAndSwap(old, new) }

type Int32 struct{ v atomic.Int32 }

func (x *Int32) Load() int32                        { y("load"); return x.v.Load() }
func (x *Int32) Store(val int32)                    { y("store"); x.v.Store(val) }
func (x *Int32) Swap(new int32) int32               { y("swap"); return x.v.Swap(new) }
func (x *Int32) CompareAndSwap(old, new int32) bool { y("cas"); return x.v.CompareAndSwap(old, new) }
func (x *Int32) Add(delta int32) int32              { y("add"); return x.v.Add(delta) }
func (x *Int32) And(mask int32) int32               { y("add"); return x.v.And(mask) }
func (x *Int32) Or(mask int32) int32                { y("add"); return x.v.Or(mask) }

type Int64 struct{ v atomic.Int64 }

func (x *Int64) Load() int64                        { y("load"); return x.v.Load() }
func (x *Int64) Store(val int64)                    { y("store"); x.v.Store(val) }
func (x *Int64) Swap(new int64) int64               { y("swap"); return x.v.Swap(new) }
func (x *Int64) CompareAndSwap(old, new int64) bool { y("cas"); return x.v.CompareAndSwap(old, new) }
func (x *Int64) Add(delta int64) int64              { y("add"); return x.v.Add(delta) }
func (x *Int64) And(mask int64) int64               { y("add"); return x.v.And(mask) }
func (x *Int64) Or(mask int64) int64                { y("add"); return x.v.Or(mask) }

type Uint32 struct{ v atomic.Uint32 }

func (x *Uint32) Load() uint32                        { y("load"); return x.v.Load() }
func (x *Uint32) Store(val uint32)                    { y("store"); x.v.Store(val) }
func (x *Uint32) Swap(new uint32) uint32              { y("swap"); return x.v.Swap(new) }
func (x *Uint32) CompareAndSwap(old, new uint32) bool { y("cas"); return x.v.CompareAndSwap(old, new) }
func (x *Uint32) Add(delta uint32) uint32             { y("add"); return x.v.Add(delta) }
func (x *Uint32) And(mask uint32) uint32              { y("add"); return x.v.And(mask) }
func (x *Uint32) Or(mask uint32) uint32               { y("add"); return x.v.Or(mask) }

type Uint64 struct{ v atomic.Uint64 }

func (x *Uint64) Load() uint64                        { y("load"); return x.v.Load() }
func (x *Uint64) Store(val uint64)                    { y("store"); x.v.Store(val) }
func (x *Uint64) Swap(new uint64) uint64              { y("swap"); return x.v.Swap(new) }
func (x *Uint64) CompareAndSwap(old, new uint64) bool { y("cas"); return x.v.CompareAndSwap(old, new) }
func (x *Uint64) Add(delta uint64) uint64             { y("add"); return x.v.Add(delta) }
func (x *Uint64) And(mask uint64) uint64              { y("add"); return x.v.And(mask) }
func (x *Uint64) Or(mask uint64) uint64               { y("add"); return x.v.Or(mask) }

type Uintptr struct{ v atomic.Uintptr }

func (x *Uintptr) Load() uintptr            { y("load"); return x.v.Load() }
func (x *Uintptr) Store(val uintptr)        { y("store"); x.v.Store(val) }
func (x *Uintptr) Swap(new uintptr) uintptr { y("swap"); return x.v.Swap(new) }
func (x *Uintptr) CompareAndSwap(old, new uintptr) bool {
	y("cas")
	return x.v.CompareAndSwap(old, new)
}
func (x *Uintptr) Add(delta uintptr) uintptr { y("add"); return x.v.Add(delta) }
func (x *Uintptr) And(mask uintptr) uintptr  { y("add"); return x.v.And(mask) }
func (x *Uintptr) Or(mask uintptr) uintptr   { y("add"); return x.v.Or(mask) }

type Pointer[T any] struct{ v atomic.Pointer[T] }

func (x *Pointer[T]) Load() *T                        { y("load"); return x.v.Load() }
func (x *Pointer[T]) Store(val *T)                    { y("store"); x.v.Store(val) }
func (x *Pointer[T]) Swap(new *T) *T                  { y("swap"); return x.v.Swap(new) }
func (x *Pointer[T]) CompareAndSwap(old, new *T) bool { y("cas"); return x.v.CompareAndSwap(old, new) }

type Value struct{ v atomic.Value }

func (x *Value) Load() any                        { y("load"); return x.v.Load() }
func (x *Value) Store(val any)                    { y("store"); x.v.Store(val) }
func (x *Value) Swap(new any) any                 { y("swap"); return x.v.Swap(new) }
func (x *Value) CompareAndSwap(old, new any) bool { y("cas"); return x.v.CompareAndSwap(old, new) }
