// Package vnet stands in for the parts of package net that gnet's client and
// Register/Enroll paths touch: the concrete connection types (backed by
// simulated descriptors), Dial, and the interface table.
package vnet

import (
	"errors"
	"net"
	"strings"
	"syscall"
	"time"

	"verif/sim/vsched"
	"verif/sim/vsys"
)

var errNotSupported = errors.New("vnet: operation not simulated")

type base struct {
	FD     int
	Local  net.Addr
	Remote net.Addr
	closed bool
}

func (c *base) Read(b []byte) (int, error) {
	defer vsched.Restore(vsched.EnterHarness())
	return 0, errNotSupported
}
func (c *base) Write(b []byte) (int, error) {
	defer vsched.Restore(vsched.EnterHarness())
	return 0, errNotSupported
}
func (c *base) LocalAddr() net.Addr {
	defer vsched.Restore(vsched.EnterHarness())
	return c.Local
}
func (c *base) RemoteAddr() net.Addr {
	defer vsched.Restore(vsched.EnterHarness())
	return c.Remote
}
func (c *base) SetDeadline(t time.Time) error {
	defer vsched.Restore(vsched.EnterHarness())
	return nil
}
func (c *base) SetReadDeadline(t time.Time) error {
	defer vsched.Restore(vsched.EnterHarness())
	return nil
}
func (c *base) SetWriteDeadline(t time.Time) error {
	defer vsched.Restore(vsched.EnterHarness())
	return nil
}
func (c *base) Close() error {
	defer vsched.Restore(vsched.EnterHarness())

	if c.closed {
		return net.ErrClosed
	}
	c.closed = true
	if k := vsys.Active(); k != nil {
		k.UserClose(c.FD)
	}
	return nil
}
func (c *base) SyscallConn() (syscall.RawConn, error) {
	defer vsched.Restore(vsched.EnterHarness())

	if c.closed {
		return nil, net.ErrClosed
	}
	return rawConn{c}, nil
}

type rawConn struct{ c *base }

func (r rawConn) Control(f func(fd uintptr)) error {
	defer vsched.Restore(vsched.EnterHarness())

	if r.c.closed {
		return net.ErrClosed
	}
	f(uintptr(r.c.FD))
	return nil
}
func (r rawConn) Read(f func(fd uintptr) (done bool)) error {
	defer vsched.Restore(vsched.EnterHarness())
	return errNotSupported
}
func (r rawConn) Write(f func(fd uintptr) (done bool)) error {
	defer vsched.Restore(vsched.EnterHarness())
	return errNotSupported
}

// TCPConn, UnixConn and UDPConn replace the net types of the same name inside
// package gnet (type switches and assertions keep working).
type TCPConn struct{ base }
type UnixConn struct{ base }
type UDPConn struct{ base }

func NewTCPConn(fd int, local, remote net.Addr) *TCPConn {
	defer vsched.Restore(vsched.EnterHarness())

	return &TCPConn{base{FD: fd, Local: local, Remote: remote}}
}
func NewUnixConn(fd int, local, remote net.Addr) *UnixConn {
	defer vsched.Restore(vsched.EnterHarness())

	return &UnixConn{base{FD: fd, Local: local, Remote: remote}}
}
func NewUDPConn(fd int, local, remote net.Addr) *UDPConn {
	defer vsched.Restore(vsched.EnterHarness())

	return &UDPConn{base{FD: fd, Local: local, Remote: remote}}
}

// DialHook is installed by the world: it plays the remote side of a dial.
var DialHook func(network, address string) (net.Conn, error)

func Dial(network, address string) (net.Conn, error) {
	defer vsched.Restore(vsched.EnterHarness())

	if DialHook == nil {
		return nil, errors.New("vnet: no dial hook installed")
	}
	return DialHook(network, address)
}

func InterfaceByName(name string) (*net.Interface, error) {
	defer vsched.Restore(vsched.EnterHarness())

	if k := vsys.Active(); k != nil {
		if i, ok := k.InterfaceByName(name); ok {
			return &net.Interface{Index: i.Index, Name: strings.Clone(i.Name)}, nil
		}
		return nil, errors.New("route ip+net: no such network interface")
	}
	return net.InterfaceByName(name)
}

func InterfaceByIndex(index int) (*net.Interface, error) {
	defer vsched.Restore(vsched.EnterHarness())

	if k := vsys.Active(); k != nil {
		if i, ok := k.InterfaceByIndex(index); ok {
			return &net.Interface{Index: i.Index, Name: strings.Clone(i.Name)}, nil
		}
		return nil, errors.New("route ip+net: no such network interface")
	}
	return net.InterfaceByIndex(index)
}
