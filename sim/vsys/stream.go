package vsys

import (
	"fmt"

	"golang.org/x/sys/unix"
)

type segment struct {
	data []byte
	fin  bool
	hup  bool // the FIN comes from a full close, not from shutdown(SHUT_WR)
	rst  bool
}

// Sock is one endpoint of a connected stream socket pair (TCP or AF_UNIX).
type Sock struct {
	ID      int
	k       *Kernel
	file    *File
	peer    *Sock
	IsUnix  bool
	Local   unix.Sockaddr
	Remote  unix.Sockaddr
	rcvq    []byte
	rcvFin  bool      // the peer's FIN has been delivered
	rcvHup  bool      // ... and the peer closed the socket altogether (AF_UNIX reports EPOLLHUP then)
	wire    []segment // in flight towards this endpoint
	soError Errno
	reset   bool
	shutWr  bool
	closed  bool
	nospace bool // a write found no room: the next time room appears is a wake-up edge
	sndCap  int
	squeeze bool // send buffer temporarily reports no room (memory pressure)
	Harness bool // endpoint driven by the harness: arrivals are immediate, no wire stage

	// accounting (oracle inputs)
	ReadBytes    int // bytes handed out by read() on this endpoint
	WrittenBytes int // bytes accepted by write()/writev() on this endpoint
	EAGAINs      int
	ShortWrites  int
	FinWithData  int
	EOFReads     int // read() returned 0
	WriteErrs    int // write() failed with something other than EAGAIN
	ReadErrs     int // read() failed with something other than EAGAIN
}

func (k *Kernel) newSock(isUnix bool, harness bool) *Sock {
	k.nextSock++
	s := &Sock{ID: k.nextSock, k: k, IsUnix: isUnix, sndCap: k.SndBuf, Harness: harness}
	k.socks = append(k.socks, s)
	return s
}

// connectPair wires two endpoints together.
func connectPair(a, b *Sock) { a.peer, b.peer = b, a }

func (s *Sock) unread() int {
	n := len(s.rcvq)
	for _, sg := range s.wire {
		n += len(sg.data)
	}
	return n
}

// free is the room a write on s finds right now.
func (s *Sock) free() int {
	if s.squeeze || s.peer == nil {
		return 0
	}
	f := s.sndCap - s.peer.unread()
	if f < 0 {
		f = 0
	}
	return f
}

func (s *Sock) writable() bool {
	if s.reset || s.shutWr {
		return true // Linux reports EPOLLOUT on a shut-down or reset socket
	}
	f := s.free()
	if s.k.OutThreshHalf {
		used := s.sndCap - f
		return f > 0 && f >= used/2
	}
	return f > 0
}

func (s *Sock) pollMask() uint32 {
	var m uint32
	if len(s.rcvq) > 0 || s.rcvFin || s.soError != 0 || s.reset {
		m |= unix.EPOLLIN
	}
	if s.writable() {
		m |= unix.EPOLLOUT
	} else {
		// as tcp_poll does: polling a socket that is not writable arms
		// SOCK_NOSPACE, so that the next time room appears is a wake-up edge
		s.nospace = true
	}
	if s.rcvFin || s.reset {
		m |= unix.EPOLLRDHUP
	}
	if s.reset || (s.rcvFin && (s.shutWr || s.IsUnix && s.rcvHup)) {
		m |= unix.EPOLLHUP
	}
	if s.soError != 0 {
		m |= unix.EPOLLERR
	}
	return m
}

// read implements read(2) on the endpoint.
func (s *Sock) read(p []byte) (int, Errno) {
	if len(s.rcvq) == 0 {
		if s.soError != 0 {
			e := s.soError
			s.soError = 0
			s.ReadErrs++
			return -1, e
		}
		if s.rcvFin || s.reset {
			s.EOFReads++
			return 0, 0
		}
		return -1, unix.EAGAIN
	}
	if len(p) == 0 {
		return 0, 0
	}
	n := min(len(p), len(s.rcvq))
	copy(p, s.rcvq[:n])
	s.rcvq = s.rcvq[n:]
	if len(s.rcvq) == 0 {
		s.rcvq = nil
	}
	s.ReadBytes += n
	s.spaceFreed()
	return n, 0
}

// spaceFreed is called when this endpoint consumed data: the peer may have
// become writable again.
func (s *Sock) spaceFreed() {
	p := s.peer
	if p == nil || p.closed {
		return
	}
	if p.nospace && p.writable() {
		p.nospace = false
		if p.file != nil {
			p.file.wake()
		}
	}
}

// write implements write(2)/writev(2) (already flattened) on the endpoint.
func (s *Sock) write(p []byte) (int, Errno) {
	if s.soError != 0 {
		e := s.soError
		s.soError = 0
		s.WriteErrs++
		return -1, e
	}
	if s.shutWr || s.reset {
		s.WriteErrs++
		return -1, unix.EPIPE
	}
	peer := s.peer
	if peer == nil {
		s.WriteErrs++
		return -1, unix.ENOTCONN
	}
	if peer.closed {
		if s.IsUnix {
			s.WriteErrs++
			return -1, unix.EPIPE
		}
		// TCP: the segment leaves, the closed peer answers with RST
		s.WrittenBytes += len(p)
		if len(s.wire) == 0 || !s.wire[len(s.wire)-1].rst {
			s.wire = append(s.wire, segment{rst: true})
		}
		return len(p), 0
	}
	if len(p) == 0 {
		return 0, 0
	}
	f := s.free()
	if f == 0 {
		s.nospace = true
		s.EAGAINs++
		return -1, unix.EAGAIN
	}
	n := min(len(p), f)
	if n < len(p) {
		s.nospace = true
		s.ShortWrites++
	}
	data := append([]byte(nil), p[:n]...)
	s.WrittenBytes += n
	if peer.Harness {
		peer.rcvq = append(peer.rcvq, data...)
		if peer.file != nil {
			peer.file.wake()
		}
	} else {
		peer.wire = append(peer.wire, segment{data: data})
	}
	return n, 0
}

// Deliverable reports whether a wire delivery towards s can happen now.
func (s *Sock) Deliverable() bool { return !s.closed && len(s.wire) > 0 }

// Deliver moves up to n wire segments into the receive queue (n<=0: all).
// One call is one arrival: one wake-up edge, whatever it carried, so data and
// FIN delivered together are seen by a single epoll event.
func (s *Sock) Deliver(n int) {
	if s.closed || len(s.wire) == 0 {
		return
	}
	if n <= 0 || n > len(s.wire) {
		n = len(s.wire)
	}
	gotData := false
	for i := 0; i < n; i++ {
		sg := s.wire[i]
		switch {
		case sg.rst:
			if s.rcvFin {
				s.soError = unix.EPIPE
			} else {
				s.soError = unix.ECONNRESET
			}
			s.reset = true
			s.wire = nil
			n = 0
		case sg.fin:
			s.rcvFin = true
			if sg.hup {
				s.rcvHup = true
			}
			if gotData {
				s.FinWithData++
				s.k.Stats["data+FIN-in-one-arrival"]++
			}
		default:
			s.rcvq = append(s.rcvq, sg.data...)
			gotData = true
		}
		if s.reset {
			break
		}
	}
	if !s.reset {
		s.wire = s.wire[n:]
		if len(s.wire) == 0 {
			s.wire = nil
		}
	}
	if s.file != nil {
		s.file.wake()
	}
	s.k.Stats["wire-deliveries"]++
}

// shutdownWrite sends FIN (orderly half close).
func (s *Sock) shutdownWrite() {
	if s.shutWr || s.closed {
		return
	}
	s.shutWr = true
	s.sendFin()
}

func (s *Sock) sendFin() {
	p := s.peer
	if p == nil || p.closed {
		return
	}
	if p.Harness {
		p.rcvFin = true
		p.rcvHup = p.rcvHup || s.closed
		if p.file != nil {
			p.file.wake()
		}
	} else {
		p.wire = append(p.wire, segment{fin: true, hup: s.closed})
	}
}

// closeLocal is close(2) of the last descriptor of the endpoint.
func (s *Sock) closeLocal(k *Kernel) {
	if s.closed {
		return
	}
	s.closed = true
	p := s.peer
	if p == nil || p.closed {
		return
	}
	unreadHere := len(s.rcvq) > 0
	linger0 := s.file != nil && s.file.opts["linger0"] == 1
	if unreadHere || linger0 || s.reset {
		// close with unread data (or SO_LINGER 0) resets the connection
		if p.Harness {
			p.soError, p.reset = unix.ECONNRESET, true
			p.rcvq = nil
			if p.file != nil {
				p.file.wake()
			}
		} else {
			p.wire = append(p.wire, segment{rst: true})
		}
		k.Stats["close-sent-RST"]++
	} else if !s.shutWr {
		s.shutWr = true
		s.sendFin()
	} else if s.IsUnix {
		// FIN went out with the earlier shutdown; the close itself is what AF_UNIX reports as HUP
		if p.Harness {
			p.rcvHup = true
			if p.file != nil {
				p.file.wake()
			}
		} else {
			p.wire = append(p.wire, segment{fin: true, hup: true})
		}
	}
	// the peer's pending writes towards us are gone; it may see room
	s.rcvq, s.wire = nil, nil
}

// Abort is the harness resetting the connection (RST) from this endpoint.
func (s *Sock) Abort() {
	if s.closed {
		return
	}
	if s.file != nil {
		s.file.opts["linger0"] = 1
	}
}

func (s *Sock) String() string {
	return fmt.Sprintf("sock#%d(rcvq=%d wire=%d fin=%v err=%d)", s.ID, len(s.rcvq), len(s.wire), s.rcvFin, int(s.soError))
}

// ---- listener ---------------------------------------------------------------

// Listener is a listening stream socket.
type Listener struct {
	file    *File
	key     string
	isUnix  bool
	addr    unix.Sockaddr
	acceptQ []*Sock // server-side endpoints waiting to be accepted
	closed  bool
}

func (l *Listener) close(k *Kernel) {
	l.closed = true
	grp := k.listeners[l.key]
	for i, f := range grp {
		if f == l.file {
			grp = append(grp[:i], grp[i+1:]...)
			break
		}
	}
	if len(grp) == 0 {
		delete(k.listeners, l.key)
	} else {
		k.listeners[l.key] = grp
	}
	// connections never accepted are reset
	for _, s := range l.acceptQ {
		s.closeLocal(k)
	}
	l.acceptQ = nil
}

// AddrKey is the bind-table key of a socket address.
func AddrKey(network string, sa unix.Sockaddr) string {
	switch a := sa.(type) {
	case *unix.SockaddrInet4:
		return fmt.Sprintf("%s4:%v:%d", network, a.Addr, a.Port)
	case *unix.SockaddrInet6:
		return fmt.Sprintf("%s6:%v%%%d:%d", network, a.Addr, a.ZoneId, a.Port)
	case *unix.SockaddrUnix:
		return "unix:" + a.Name
	}
	return network + ":?"
}
