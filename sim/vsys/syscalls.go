package vsys

import (
	"fmt"
	"time"
	"unsafe"

	"golang.org/x/sys/unix"

	"verif/sim/vsched"
)

func kern() *Kernel {
	if active == nil {
		panic("vsys: simulated syscall outside a simulation run")
	}
	return active
}

func rerr(e Errno) error {
	if e == 0 {
		return nil
	}
	return e
}

func flatten(iovs [][]byte) []byte {
	n := 0
	for _, b := range iovs {
		n += len(b)
	}
	out := make([]byte, 0, n)
	for _, b := range iovs {
		out = append(out, b...)
	}
	return out
}

// Read is read(2).
func Read(fd int, p []byte) (int, error) {
	defer vsched.Restore(vsched.EnterHarness())

	vsched.Yield("sys:read")
	k := kern()
	e, errno := k.frameworkFd("read", fd)
	if e == nil {
		return -1, errno
	}
	f := e.file
	if fe, ft := k.fault("read", f); fe != 0 {
		if ft.State && f.kind == kStream {
			f.sock.reset = true
			f.wake()
		}
		k.use("read", fd, unix.ErrnoName(fe))
		return -1, fe
	}
	switch f.kind {
	case kStream:
		want := p
		if k.ShortReadLT > 0 && len(p) > 1 && len(f.sock.rcvq) > 1 && !k.etRegistered(f) && k.Draw(fmt.Sprintf("shortread:%d", f.sock.ID), 100) < k.ShortReadLT {
			want = p[:1+k.Draw(fmt.Sprintf("shortlen:%d", f.sock.ID), min(len(p), len(f.sock.rcvq))-1)]
			k.Stats["short-read-LT"]++
		}
		n, en := f.sock.read(want)
		k.use("read", fd, res(n, en))
		if n > 0 {
			k.Stats["read-bytes"] += n
		}
		return n, rerr(en)
	case kEventfd:
		if len(p) < 8 {
			k.use("read", fd, "EINVAL")
			return -1, unix.EINVAL
		}
		if f.efd.counter == 0 {
			k.use("read", fd, "EAGAIN")
			return -1, unix.EAGAIN
		}
		*(*uint64)(unsafe.Pointer(&p[0])) = f.efd.counter
		f.efd.counter = 0
		f.wake()
		k.use("read", fd, "8")
		return 8, nil
	case kUDP:
		n, _, en := f.udp.recv(k, fd, p)
		k.use("read", fd, res(n, en))
		return n, rerr(en)
	case kCanary:
		k.use("read", fd, "EAGAIN")
		return -1, unix.EAGAIN
	}
	k.use("read", fd, "EINVAL")
	return -1, unix.EINVAL
}

func res(n int, e Errno) string {
	if e != 0 {
		return unix.ErrnoName(e)
	}
	return fmt.Sprint(n)
}

// etRegistered reports whether some epoll item on f is edge-triggered.
func (k *Kernel) etRegistered(f *File) bool {
	for _, it := range f.watch {
		if it.events&unix.EPOLLET != 0 {
			return true
		}
	}
	return false
}

// Readv is readv(2).
func Readv(fd int, iovs [][]byte) (int, error) {
	defer vsched.Restore(vsched.EnterHarness())

	n := 0
	for _, b := range iovs {
		n += len(b)
	}
	buf := make([]byte, n)
	m, err := Read(fd, buf)
	if m > 0 {
		off := 0
		for _, b := range iovs {
			off += copy(b, buf[off:m])
			if off >= m {
				break
			}
		}
	}
	return m, err
}

func (k *Kernel) doWrite(call string, fd int, p []byte, niov int) (int, error) {
	e, errno := k.frameworkFd(call, fd)
	if e == nil {
		return -1, errno
	}
	f := e.file
	if niov > 1024 { // IOV_MAX
		k.use(call, fd, "EINVAL")
		k.Stats["writev-above-IOV_MAX"]++
		if f.kind == kStream {
			f.sock.WriteErrs++
		}
		return -1, unix.EINVAL
	}
	if fe, ft := k.fault(call, f); fe != 0 {
		if ft.State && f.kind == kStream {
			f.sock.reset = true
			f.wake()
		}
		k.use(call, fd, unix.ErrnoName(fe))
		return -1, fe
	}
	switch f.kind {
	case kStream:
		n, en := f.sock.write(p)
		k.use(call, fd, res(n, en))
		if en == unix.EAGAIN {
			k.Stats["write-EAGAIN"]++
		} else if n >= 0 && n < len(p) {
			k.Stats["write-short"]++
		}
		return n, rerr(en)
	case kEventfd:
		if len(p) < 8 {
			k.use(call, fd, "EINVAL")
			return -1, unix.EINVAL
		}
		v := *(*uint64)(unsafe.Pointer(&p[0]))
		if v == ^uint64(0) {
			return -1, unix.EINVAL
		}
		if f.efd.counter+v > efdMax || f.efd.counter+v < f.efd.counter {
			k.use(call, fd, "EAGAIN")
			k.Stats["eventfd-overflow"]++
			return -1, unix.EAGAIN
		}
		f.efd.counter += v
		f.wake()
		k.use(call, fd, "8")
		return 8, nil
	case kUDP:
		en := f.udp.send(k, fd, p, nil)
		if en != 0 {
			k.use(call, fd, unix.ErrnoName(en))
			return -1, en
		}
		k.use(call, fd, fmt.Sprint(len(p)))
		return len(p), nil
	case kCanary:
		k.use(call, fd, "EAGAIN")
		return -1, unix.EAGAIN
	}
	k.use(call, fd, "EINVAL")
	return -1, unix.EINVAL
}

// Write is write(2).
func Write(fd int, p []byte) (int, error) {
	defer vsched.Restore(vsched.EnterHarness())

	vsched.Yield("sys:write")
	return kern().doWrite("write", fd, p, 1)
}

// Writev is writev(2).
func Writev(fd int, iovs [][]byte) (int, error) {
	defer vsched.Restore(vsched.EnterHarness())

	vsched.Yield("sys:writev")
	k := kern()
	if len(iovs) > 1 {
		k.Stats["writev-multi-segment"]++
	}
	return k.doWrite("writev", fd, flatten(iovs), len(iovs))
}

// Close is close(2).
func Close(fd int) error {
	defer vsched.Restore(vsched.EnterHarness())

	vsched.Yield("sys:close")
	k := kern()
	e, errno := k.frameworkFd("close", fd)
	if e == nil {
		return errno
	}
	fe, _ := k.fault("close", e.file)
	wasFramework := e.owner == OwnFramework
	k.closeFd(fd, OwnFramework+":"+k.taskName())
	if e.owner == OwnCanary {
		k.ReleaseCanary(fd)
	}
	if fe != 0 {
		// as on Linux the descriptor is released even when close reports an error
		k.use("close", fd, unix.ErrnoName(fe))
		if wasFramework {
			k.maybeCanary(fd)
		}
		return fe
	}
	k.use("close", fd, "0")
	if wasFramework {
		k.maybeCanary(fd)
	}
	return nil
}

// Socket is socket(2).
func Socket(domain, typ, proto int) (int, error) {
	defer vsched.Restore(vsched.EnterHarness())

	vsched.Yield("sys:socket")
	k := kern()
	if fe, _ := k.fault("socket", nil); fe != 0 {
		k.trace("sys %s socket() -> %s", k.taskName(), unix.ErrnoName(fe))
		return -1, fe
	}
	f := k.newFile(kUnbound, OwnFramework)
	f.family = domain
	f.sotype = typ &^ (unix.SOCK_NONBLOCK | unix.SOCK_CLOEXEC)
	f.nonblk = typ&unix.SOCK_NONBLOCK != 0
	fd := k.install(f, OwnFramework)
	k.fds[fd].origin = "socket"
	k.use("socket", fd, "0")
	return fd, nil
}

func (k *Kernel) sockFile(call string, fd int) (*File, Errno) {
	e, errno := k.frameworkFd(call, fd)
	if e == nil {
		return nil, errno
	}
	return e.file, 0
}

// Bind is bind(2).
func Bind(fd int, sa unix.Sockaddr) error {
	defer vsched.Restore(vsched.EnterHarness())

	vsched.Yield("sys:bind")
	k := kern()
	f, errno := k.sockFile("bind", fd)
	if f == nil {
		return errno
	}
	if f.kind != kUnbound {
		return unix.EINVAL
	}
	if fe, _ := k.fault("bind", f); fe != 0 {
		k.use("bind", fd, unix.ErrnoName(fe))
		return fe
	}
	switch f.sotype {
	case unix.SOCK_STREAM:
		f.lst = &Listener{file: f, addr: sa}
		if u, ok := sa.(*unix.SockaddrUnix); ok {
			f.lst.isUnix = true
			if k.unixPaths[u.Name] {
				k.use("bind", fd, "EADDRINUSE")
				return unix.EADDRINUSE
			}
			k.unixPaths[u.Name] = true
			f.lst.key = "unix:" + u.Name
		} else {
			f.lst.key = AddrKey("tcp", sa)
		}
		if grp := k.listeners[f.lst.key]; len(grp) > 0 && (f.opts["reuseport"] == 0 || grp[0].opts["reuseport"] == 0) {
			f.lst = nil
			k.use("bind", fd, "EADDRINUSE")
			return unix.EADDRINUSE
		}
		// the bind table entry is taken at bind time
		k.listeners[f.lst.key] = append(k.listeners[f.lst.key], f)
	case unix.SOCK_DGRAM:
		u := &UDPSock{file: f, bound: sa, key: AddrKey("udp", sa)}
		if grp := k.udpBound[u.key]; len(grp) > 0 && (f.opts["reuseport"] == 0 || grp[0].opts["reuseport"] == 0) {
			k.use("bind", fd, "EADDRINUSE")
			return unix.EADDRINUSE
		}
		f.udp = u
		f.kind = kUDP
		k.udpBound[u.key] = append(k.udpBound[u.key], f)
	default:
		return unix.EINVAL
	}
	k.use("bind", fd, "0")
	return nil
}

// Listen is listen(2).
func Listen(fd int, backlog int) error {
	defer vsched.Restore(vsched.EnterHarness())

	vsched.Yield("sys:listen")
	k := kern()
	f, errno := k.sockFile("listen", fd)
	if f == nil {
		return errno
	}
	if f.kind != kUnbound || f.lst == nil {
		return unix.EINVAL
	}
	if fe, _ := k.fault("listen", f); fe != 0 {
		k.use("listen", fd, unix.ErrnoName(fe))
		return fe
	}
	f.kind = kListener
	k.use("listen", fd, "0")
	return nil
}

// Connect is connect(2); the engine never connects sockets itself on the
// paths the simulation drives, so this reports ECONNREFUSED.
func Connect(fd int, sa unix.Sockaddr) error {
	defer vsched.Restore(vsched.EnterHarness())

	vsched.Yield("sys:connect")
	k := kern()
	if _, errno := k.sockFile("connect", fd); errno != 0 {
		return errno
	}
	k.use("connect", fd, "ECONNREFUSED")
	return unix.ECONNREFUSED
}

// Accept4 is accept4(2).
func Accept4(fd int, flags int) (int, unix.Sockaddr, error) {
	defer vsched.Restore(vsched.EnterHarness())

	vsched.Yield("sys:accept")
	k := kern()
	f, errno := k.sockFile("accept", fd)
	if f == nil {
		return -1, nil, errno
	}
	if f.kind != kListener {
		k.use("accept", fd, "EINVAL")
		return -1, nil, unix.EINVAL
	}
	if fe, _ := k.fault("accept", f); fe != 0 {
		k.use("accept", fd, unix.ErrnoName(fe))
		if fe == unix.ECONNABORTED || fe == unix.ECONNRESET {
			// the connection at the head of the queue died before accept
			if len(f.lst.acceptQ) > 0 {
				s := f.lst.acceptQ[0]
				f.lst.acceptQ = f.lst.acceptQ[1:]
				s.closeLocal(k)
			}
		}
		return -1, nil, fe
	}
	if len(f.lst.acceptQ) == 0 {
		k.use("accept", fd, "EAGAIN")
		return -1, nil, unix.EAGAIN
	}
	s := f.lst.acceptQ[0]
	f.lst.acceptQ = f.lst.acceptQ[1:]
	nf := k.newFile(kStream, OwnFramework)
	nf.sock = s
	nf.nonblk = flags&unix.SOCK_NONBLOCK != 0
	s.file = nf
	// socket options that accepted sockets inherit
	for _, o := range []string{"sndbuf", "rcvbuf"} {
		if v := f.opts[o]; v > 0 {
			nf.opts[o] = v
		}
	}
	if v := f.opts["sndbuf"]; v > 0 {
		s.sndCap = v
	}
	nfd := k.install(nf, OwnFramework)
	k.fds[nfd].origin = "accept"
	k.use("accept", fd, fmt.Sprintf("fd=%d", nfd))
	k.Stats["accepted"]++
	k.AcceptLog = append(k.AcceptLog, s.ID)
	if k.OnAccept != nil {
		k.OnAccept(s.ID)
	}
	return nfd, s.Remote, nil
}

// Accept is accept(2).
func Accept(fd int) (int, unix.Sockaddr, error) {
	defer vsched.Restore(vsched.EnterHarness())
	return Accept4(fd, 0)
}

// EpollCreate1 is epoll_create1(2).
func EpollCreate1(flag int) (int, error) {
	defer vsched.Restore(vsched.EnterHarness())

	vsched.Yield("sys:epoll_create")
	k := kern()
	if fe, _ := k.fault("epoll_create", nil); fe != 0 {
		k.trace("sys %s epoll_create1() -> %s", k.taskName(), unix.ErrnoName(fe))
		return -1, fe
	}
	f := k.newFile(kEpoll, OwnFramework)
	f.ep = &Epoll{file: f}
	fd := k.install(f, OwnFramework)
	k.fds[fd].origin = "epoll_create"
	k.use("epoll_create1", fd, "0")
	return fd, nil
}

// Eventfd is eventfd2(2).
func Eventfd(initval uint, flags int) (int, error) {
	defer vsched.Restore(vsched.EnterHarness())

	vsched.Yield("sys:eventfd")
	k := kern()
	if fe, _ := k.fault("eventfd", nil); fe != 0 {
		k.trace("sys %s eventfd() -> %s", k.taskName(), unix.ErrnoName(fe))
		return -1, fe
	}
	f := k.newFile(kEventfd, OwnFramework)
	f.efd = &eventfdObj{file: f, counter: uint64(initval) + k.EfdStart}
	fd := k.install(f, OwnFramework)
	k.fds[fd].origin = "eventfd"
	k.use("eventfd", fd, "0")
	return fd, nil
}

func (k *Kernel) epollOf(call string, epfd int) (*Epoll, Errno) {
	e, errno := k.frameworkFd(call, epfd)
	if e == nil {
		return nil, errno
	}
	if e.file.kind != kEpoll {
		return nil, unix.EINVAL
	}
	return e.file.ep, 0
}

// EpollCtl is epoll_ctl(2).
func EpollCtl(epfd int, op int, fd int, event *unix.EpollEvent) error {
	defer vsched.Restore(vsched.EnterHarness())

	vsched.Yield("sys:epoll_ctl")
	k := kern()
	ep, errno := k.epollOf("epoll_ctl", epfd)
	if ep == nil {
		return errno
	}
	var events uint32
	var data [8]byte
	if event != nil {
		events = event.Events
		*(*int32)(unsafe.Pointer(&data[0])) = event.Fd
		*(*int32)(unsafe.Pointer(&data[4])) = event.Pad
	}
	return rerr(k.epollCtl(ep, op, fd, events, data))
}

func (k *Kernel) epollWait(epfd int, max int, msec int) ([]readyEvent, Errno) {
	ep, errno := k.epollOf("epoll_wait", epfd)
	if ep == nil {
		return nil, errno
	}
	if max <= 0 {
		return nil, unix.EINVAL
	}
	if fe, _ := k.fault("epoll_wait", ep.file); fe != 0 {
		k.trace("sys %s epoll_wait(%d) -> %s", k.taskName(), epfd, unix.ErrnoName(fe))
		return nil, fe
	}
	if msec != 0 && !ep.anyReady() {
		k.Stats["epoll_wait-blocked"]++
		if msec < 0 {
			vsched.Block("sys:epoll_wait:blocked", ep.anyReady)
		} else {
			deadline := time.Now().Add(time.Duration(msec) * time.Millisecond)
			tm := time.AfterFunc(time.Duration(msec)*time.Millisecond, vsched.Poke)
			vsched.Block("sys:epoll_wait:blocked", func() bool { return ep.anyReady() || !time.Now().Before(deadline) })
			tm.Stop()
		}
		if active != k {
			panic(vsched.Poison)
		}
	}
	evs := ep.collect(k, max)
	if k.Trace != nil {
		s := ""
		for _, e := range evs {
			s += fmt.Sprintf(" %d:%#x", e.fd, e.events)
		}
		k.trace("sys %s epoll_wait(%d) ->%s", k.taskName(), epfd, s)
	}
	return evs, 0
}

// EpollWait is epoll_wait(2).
func EpollWait(epfd int, events []unix.EpollEvent, msec int) (int, error) {
	defer vsched.Restore(vsched.EnterHarness())

	vsched.Yield("sys:epoll_wait")
	k := kern()
	evs, errno := k.epollWait(epfd, len(events), msec)
	if errno != 0 {
		return -1, errno
	}
	for i, e := range evs {
		events[i].Events = e.events
		events[i].Fd = *(*int32)(unsafe.Pointer(&e.data[0]))
		events[i].Pad = *(*int32)(unsafe.Pointer(&e.data[4]))
	}
	return len(evs), nil
}

// rawEpollEvent is the amd64 kernel layout (packed: 12 bytes).
type rawEpollEvent struct {
	events uint32
	data   [8]byte
}

// Syscall6 decodes the raw epoll system calls used by the poll_opt build.
//
// The event argument of epoll_ctl arrives as a uintptr that usually points
// into the caller's stack frame. Unlike a real system call, this function is
// ordinary Go code: a stack growth or a yield would move the caller's stack and
// leave the number dangling. The entry point is therefore nosplit and copies
// the 12 bytes before anything else happens.
//
//go:nosplit
func Syscall6(trap, a1, a2, a3, a4, a5, a6 uintptr) (r1, r2 uintptr, err unix.Errno) {
	defer vsched.Restore(vsched.EnterHarness())

	var ev [12]byte
	if trap == unix.SYS_EPOLL_CTL && a4 != 0 {
		ev = *(*[12]byte)(unsafe.Pointer(a4)) //nolint:govet
	}
	// a2 (the event list of epoll_wait) may point into the caller's stack as
	// well: turned back into a pointer right here it is adjusted like any
	// other pointer when that stack moves while the task is parked
	return syscall6(trap, a1, unsafe.Pointer(a2), a3, a4, ev) //nolint:govet
}

// RawSyscall6 is the same seam for the non-blocking variant.
//
//go:nosplit
func RawSyscall6(trap, a1, a2, a3, a4, a5, a6 uintptr) (r1, r2 uintptr, err unix.Errno) {
	defer vsched.Restore(vsched.EnterHarness())

	var ev [12]byte
	if trap == unix.SYS_EPOLL_CTL && a4 != 0 {
		ev = *(*[12]byte)(unsafe.Pointer(a4)) //nolint:govet
	}
	return syscall6(trap, a1, unsafe.Pointer(a2), a3, a4, ev) //nolint:govet
}

func syscall6(trap, a1 uintptr, a2 unsafe.Pointer, a3, a4 uintptr, ev [12]byte) (r1, r2 uintptr, err unix.Errno) {
	switch trap {
	case unix.SYS_EPOLL_WAIT, unix.SYS_EPOLL_PWAIT:
		vsched.Yield("sys:epoll_wait")
		k := kern()
		max := int(a3)
		msec := int(int32(a4))
		evs, errno := k.epollWait(int(a1), max, msec)
		if errno != 0 {
			return ^uintptr(0), 0, errno
		}
		base := a2
		for i, e := range evs {
			p := (*[12]byte)(unsafe.Add(base, i*12))
			*(*uint32)(unsafe.Pointer(&p[0])) = e.events
			copy(p[4:], e.data[:])
		}
		return uintptr(len(evs)), 0, 0
	case unix.SYS_EPOLL_CTL:
		vsched.Yield("sys:epoll_ctl")
		k := kern()
		ep, errno := k.epollOf("epoll_ctl", int(a1))
		if ep == nil {
			return ^uintptr(0), 0, errno
		}
		var events uint32
		var data [8]byte
		if a4 != 0 {
			events = *(*uint32)(unsafe.Pointer(&ev[0]))
			copy(data[:], ev[4:])
		}
		if e := k.epollCtl(ep, int(uintptr(a2)), int(a3), events, data); e != 0 {
			return ^uintptr(0), 0, e
		}
		return 0, 0, 0
	}
	panic(fmt.Sprintf("vsys: raw syscall %d is not simulated", trap))
}

// Recvfrom is recvfrom(2).
func Recvfrom(fd int, p []byte, flags int) (int, unix.Sockaddr, error) {
	defer vsched.Restore(vsched.EnterHarness())

	vsched.Yield("sys:recvfrom")
	k := kern()
	f, errno := k.sockFile("recvfrom", fd)
	if f == nil {
		return -1, nil, errno
	}
	if fe, _ := k.fault("recvfrom", f); fe != 0 {
		k.use("recvfrom", fd, unix.ErrnoName(fe))
		return -1, nil, fe
	}
	if f.kind != kUDP {
		k.use("recvfrom", fd, "ENOTSOCK")
		return -1, nil, unix.ENOTSOCK
	}
	n, from, en := f.udp.recv(k, fd, p)
	k.use("recvfrom", fd, res(n, en))
	return n, from, rerr(en)
}

// Sendto is sendto(2).
func Sendto(fd int, p []byte, flags int, to unix.Sockaddr) error {
	defer vsched.Restore(vsched.EnterHarness())

	vsched.Yield("sys:sendto")
	k := kern()
	f, errno := k.sockFile("sendto", fd)
	if f == nil {
		return errno
	}
	if fe, _ := k.fault("sendto", f); fe != 0 {
		k.use("sendto", fd, unix.ErrnoName(fe))
		return fe
	}
	if f.kind != kUDP {
		k.use("sendto", fd, "ENOTSOCK")
		return unix.ENOTSOCK
	}
	en := f.udp.send(k, fd, p, to)
	k.use("sendto", fd, res(len(p), en))
	return rerr(en)
}

// Send is send(2) on a connected socket.
func Send(fd int, p []byte, flags int) error {
	defer vsched.Restore(vsched.EnterHarness())

	vsched.Yield("sys:send")
	k := kern()
	f, errno := k.sockFile("send", fd)
	if f == nil {
		return errno
	}
	if fe, _ := k.fault("send", f); fe != 0 {
		k.use("send", fd, unix.ErrnoName(fe))
		return fe
	}
	switch f.kind {
	case kUDP:
		en := f.udp.send(k, fd, p, nil)
		k.use("send", fd, res(len(p), en))
		return rerr(en)
	case kStream:
		n, en := f.sock.write(p)
		k.use("send", fd, res(n, en))
		return rerr(en)
	}
	return unix.ENOTSOCK
}

func (k *Kernel) dup(call string, fd int) (int, Errno) {
	e := k.fds[fd]
	if e == nil {
		// dup of the application's own descriptor (client path) is not a
		// framework I/O on a connection; a closed number is still an error
		k.frameworkFd(call, fd)
		return -1, unix.EBADF
	}
	if fe, _ := k.fault(call, e.file); fe != 0 {
		k.use(call, fd, unix.ErrnoName(fe))
		return -1, fe
	}
	nfd := k.install(e.file, OwnFramework)
	k.fds[nfd].origin = "dup"
	k.use(call, fd, fmt.Sprintf("fd=%d", nfd))
	k.Stats["dup"]++
	return nfd, 0
}

// FcntlInt is fcntl(2) with an integer argument.
func FcntlInt(fd uintptr, cmd, arg int) (int, error) {
	defer vsched.Restore(vsched.EnterHarness())

	vsched.Yield("sys:fcntl")
	k := kern()
	switch cmd {
	case unix.F_DUPFD_CLOEXEC, unix.F_DUPFD:
		n, e := k.dup("fcntl_dupfd", int(fd))
		return n, rerr(e)
	case unix.F_GETFL, unix.F_SETFL, unix.F_GETFD, unix.F_SETFD:
		if k.fds[int(fd)] == nil {
			return -1, unix.EBADF
		}
		return 0, nil
	}
	return -1, unix.EINVAL
}

// Dup is dup(2) (syscall.Dup in the fallback path).
func Dup(fd int) (int, error) {
	defer vsched.Restore(vsched.EnterHarness())

	vsched.Yield("sys:dup")
	n, e := kern().dup("dup", fd)
	return n, rerr(e)
}

// CloseOnExec is a no-op in the simulation.
func CloseOnExec(fd int) {
	defer vsched.Restore(vsched.EnterHarness())
}

// SetNonblock records the flag.
func SetNonblock(fd int, nonblocking bool) error {
	defer vsched.Restore(vsched.EnterHarness())

	k := kern()
	if e := k.fds[fd]; e != nil {
		e.file.nonblk = nonblocking
		return nil
	}
	return unix.EBADF
}

func (k *Kernel) setopt(fd int, name string, v int) error {
	e := k.fds[fd]
	if e == nil {
		k.frameworkFd("setsockopt", fd)
		return unix.EBADF
	}
	if fe, _ := k.fault("setsockopt", e.file); fe != 0 {
		k.use("setsockopt", fd, unix.ErrnoName(fe))
		return fe
	}
	e.file.opts[name] = v
	if name == "sndbuf" && e.file.kind == kStream && v > 0 {
		e.file.sock.sndCap = v
	}
	k.trace("sys %s setsockopt(%d,%s=%d)", k.taskName(), fd, name, v)
	return nil
}

// SetsockoptInt records the options the simulation models and accepts the rest.
func SetsockoptInt(fd, level, opt int, value int) error {
	defer vsched.Restore(vsched.EnterHarness())

	k := kern()
	name := fmt.Sprintf("opt-%d-%d", level, opt)
	if level == unix.SOL_SOCKET {
		switch opt {
		case unix.SO_REUSEPORT:
			name = "reuseport"
		case unix.SO_REUSEADDR:
			name = "reuseaddr"
		case unix.SO_SNDBUF:
			name = "sndbuf"
		case unix.SO_RCVBUF:
			name = "rcvbuf"
		}
	}
	return k.setopt(fd, name, value)
}

func SetsockoptLinger(fd, level, opt int, l *unix.Linger) error {
	defer vsched.Restore(vsched.EnterHarness())

	k := kern()
	v := 0
	if l != nil && l.Onoff != 0 && l.Linger == 0 {
		v = 1
	}
	return k.setopt(fd, "linger0", v)
}
func SetsockoptInet4Addr(fd, level, opt int, value [4]byte) error {
	defer vsched.Restore(vsched.EnterHarness())

	return kern().setopt(fd, fmt.Sprintf("opt-%d-%d", level, opt), 1)
}
func SetsockoptIPv6Mreq(fd, level, opt int, mreq *unix.IPv6Mreq) error {
	defer vsched.Restore(vsched.EnterHarness())

	return kern().setopt(fd, fmt.Sprintf("opt-%d-%d", level, opt), 1)
}
func SetsockoptIPMreq(fd, level, opt int, mreq *unix.IPMreq) error {
	defer vsched.Restore(vsched.EnterHarness())

	return kern().setopt(fd, fmt.Sprintf("opt-%d-%d", level, opt), 1)
}
func SetsockoptByte(fd, level, opt int, value byte) error {
	defer vsched.Restore(vsched.EnterHarness())

	return kern().setopt(fd, fmt.Sprintf("opt-%d-%d", level, opt), int(value))
}
func SetsockoptString(fd, level, opt int, s string) error {
	defer vsched.Restore(vsched.EnterHarness())

	return kern().setopt(fd, fmt.Sprintf("opt-%d-%d", level, opt), 1)
}
func BindToDevice(fd int, device string) error {
	defer vsched.Restore(vsched.EnterHarness())
	return kern().setopt(fd, "bindtodevice", 1)
}

// RemoveAll replaces os.RemoveAll in the listener: it unlinks a unix-socket path.
func RemoveAll(path string) error {
	defer vsched.Restore(vsched.EnterHarness())

	k := kern()
	k.Removed = append(k.Removed, path)
	delete(k.unixPaths, path)
	k.trace("sys %s unlink(%s)", k.taskName(), path)
	return nil
}

// UnixPathExists reports whether a unix-socket file is present.
func (k *Kernel) UnixPathExists(path string) bool { return k.unixPaths[path] }

// GetsockoptInt is getsockopt(2) for integer options. SO_ERROR returns and
// clears the pending socket error; options set earlier read back; the rest is 0.
func GetsockoptInt(fd, level, opt int) (int, error) {
	defer vsched.Restore(vsched.EnterHarness())

	vsched.Yield("sys:getsockopt")
	k := kern()
	e, errno := k.frameworkFd("getsockopt", fd)
	if e == nil {
		return -1, errno
	}
	if level == unix.SOL_SOCKET && opt == unix.SO_ERROR {
		v := 0
		switch e.file.kind {
		case kUDP:
			v = int(e.file.udp.soErr)
			e.file.udp.soErr = 0
		case kStream:
			v = int(e.file.sock.soError)
			e.file.sock.soError = 0
		}
		k.use("getsockopt", fd, fmt.Sprintf("SO_ERROR=%d", v))
		return v, nil
	}
	name := fmt.Sprintf("opt-%d-%d", level, opt)
	if level == unix.SOL_SOCKET {
		switch opt {
		case unix.SO_REUSEPORT:
			name = "reuseport"
		case unix.SO_REUSEADDR:
			name = "reuseaddr"
		case unix.SO_SNDBUF:
			name = "sndbuf"
		case unix.SO_RCVBUF:
			name = "rcvbuf"
		}
	}
	k.use("getsockopt", fd, name)
	return e.file.opts[name], nil
}

// Getsockname is getsockname(2).
func Getsockname(fd int) (unix.Sockaddr, error) {
	defer vsched.Restore(vsched.EnterHarness())

	k := kern()
	e, errno := k.frameworkFd("getsockname", fd)
	if e == nil {
		return nil, errno
	}
	switch e.file.kind {
	case kStream:
		return e.file.sock.Local, nil
	case kListener, kUnbound:
		if e.file.lst != nil {
			return e.file.lst.addr, nil
		}
	case kUDP:
		return e.file.udp.bound, nil
	}
	return nil, unix.ENOTSOCK
}

// Getpeername is getpeername(2).
func Getpeername(fd int) (unix.Sockaddr, error) {
	defer vsched.Restore(vsched.EnterHarness())

	k := kern()
	e, errno := k.frameworkFd("getpeername", fd)
	if e == nil {
		return nil, errno
	}
	switch e.file.kind {
	case kStream:
		return e.file.sock.Remote, nil
	case kUDP:
		if e.file.udp.connected != nil {
			return e.file.udp.connected, nil
		}
	}
	return nil, unix.ENOTCONN
}

// Shutdown is shutdown(2) on a stream socket.
func Shutdown(fd int, how int) error {
	defer vsched.Restore(vsched.EnterHarness())

	vsched.Yield("sys:shutdown")
	k := kern()
	e, errno := k.frameworkFd("shutdown", fd)
	if e == nil {
		return errno
	}
	if e.file.kind != kStream {
		k.use("shutdown", fd, "ENOTCONN")
		return unix.ENOTCONN
	}
	if how == unix.SHUT_WR || how == unix.SHUT_RDWR {
		e.file.sock.shutdownWrite()
	}
	k.use("shutdown", fd, "0")
	return nil
}
