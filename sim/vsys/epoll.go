package vsys

import (
	"fmt"
	"strings"

	"golang.org/x/sys/unix"
)

// eventfdObj is an eventfd(2) counter.
type eventfdObj struct {
	file    *File
	counter uint64
}

const efdMax = ^uint64(0) - 1 // 0xfffffffffffffffe

// epItem is one registration in an epoll instance, keyed by (fd, file).
type epItem struct {
	ep            *Epoll
	fd            int
	file          *File
	events        uint32 // requested mask incl. EPOLLET / EPOLLRDHUP
	data          [8]byte
	seenSeq       int // file.wakeSeq at the last report (edge-triggered)
	staleReported bool
}

// Epoll is an epoll instance.
type Epoll struct {
	file  *File
	items []*epItem // registration order
}

func (ep *Epoll) find(fd int, f *File) *epItem {
	for _, it := range ep.items {
		if it.fd == fd && it.file == f {
			return it
		}
	}
	return nil
}

func (ep *Epoll) remove(it *epItem) {
	for i, x := range ep.items {
		if x == it {
			ep.items = append(ep.items[:i], ep.items[i+1:]...)
			break
		}
	}
	for i, x := range it.file.watch {
		if x == it {
			it.file.watch = append(it.file.watch[:i], it.file.watch[i+1:]...)
			break
		}
	}
}

func (f *File) pollMask() uint32 {
	switch f.kind {
	case kStream:
		return f.sock.pollMask()
	case kListener:
		if len(f.lst.acceptQ) > 0 {
			return unix.EPOLLIN
		}
		return 0
	case kUDP:
		m := uint32(unix.EPOLLOUT)
		if len(f.udp.queue) > 0 {
			m |= unix.EPOLLIN
		}
		if f.udp.soErr != 0 {
			m |= unix.EPOLLERR
		}
		return m
	case kEventfd:
		var m uint32
		if f.efd.counter > 0 {
			m |= unix.EPOLLIN
		}
		if f.efd.counter < efdMax {
			m |= unix.EPOLLOUT
		}
		return m
	case kUnbound:
		return unix.EPOLLOUT | unix.EPOLLHUP
	}
	return 0
}

// ready computes what the item would report now (0: nothing).
func (it *epItem) ready() uint32 {
	interest := it.events&(unix.EPOLLIN|unix.EPOLLPRI|unix.EPOLLOUT|unix.EPOLLRDHUP) | unix.EPOLLERR | unix.EPOLLHUP
	m := it.file.pollMask() & interest
	if m == 0 {
		return 0
	}
	if it.events&unix.EPOLLET != 0 && it.seenSeq == it.file.wakeSeq {
		return 0
	}
	return m
}

func (ep *Epoll) anyReady() bool {
	for _, it := range ep.items {
		if it.ready() != 0 {
			return true
		}
	}
	return false
}

type readyEvent struct {
	events uint32
	data   [8]byte
	fd     int
}

// collect gathers up to max ready events; the order within the batch is
// chosen by the kernel's seed (Linux gives no ordering guarantee).
func (ep *Epoll) collect(k *Kernel, max int) []readyEvent {
	var cand []*epItem
	for _, it := range ep.items {
		if it.ready() != 0 {
			cand = append(cand, it)
		}
	}
	// seeded permutation
	for i := len(cand) - 1; i > 0; i-- {
		j := k.Draw(fmt.Sprintf("batch:%d", ep.file.id), i+1)
		cand[i], cand[j] = cand[j], cand[i]
	}
	if len(cand) > max {
		cand = cand[:max]
		k.Stats["epoll-batch-truncated"]++
	}
	out := make([]readyEvent, 0, len(cand))
	for _, it := range cand {
		m := it.ready()
		if it.events&unix.EPOLLET != 0 {
			it.seenSeq = it.file.wakeSeq
		}
		out = append(out, readyEvent{events: m, data: it.data, fd: it.fd})
		// a registration that outlives its descriptor: the number was closed (or
		// closed and re-used) but the open file description is kept alive by
		// another descriptor, so the kernel keeps reporting it
		if e := k.fds[it.fd]; (e == nil || e.file != it.file) && !it.staleReported && ep.file != nil {
			it.staleReported = true
			if h := k.hist[it.fd]; h != nil && strings.HasPrefix(h.closedBy, OwnFramework) {
				k.Ledger = append(k.Ledger, LedgerEvent{Kind: "stale-registration", Call: "epoll_wait", Fd: it.fd, Task: k.taskName(),
					Msg: fmt.Sprintf("epoll_wait reports events for descriptor %d, which the framework has closed without removing it from the poller (the registration survives because another descriptor still refers to the open file)", it.fd)})
			}
		}
	}
	return out
}

func (k *Kernel) epollCtl(ep *Epoll, op int, fd int, events uint32, data [8]byte) Errno {
	site := map[int]string{unix.EPOLL_CTL_ADD: "epoll_ctl_add", unix.EPOLL_CTL_MOD: "epoll_ctl_mod", unix.EPOLL_CTL_DEL: "epoll_ctl_del"}[op]
	target := k.fds[fd]
	if target == nil {
		// DEL of a stale number is the framework's documented guard and is
		// not I/O on the descriptor; ADD/MOD on a closed number is.
		if op != unix.EPOLL_CTL_DEL {
			k.frameworkFd(site, fd)
		} else {
			k.use(site, fd, "EBADF")
		}
		return unix.EBADF
	}
	if target.owner != OwnFramework && op != unix.EPOLL_CTL_DEL {
		k.frameworkFd(site, fd)
	}
	if e, _ := k.fault(site, target.file); e != 0 {
		k.use(site, fd, unix.ErrnoName(e))
		if op == unix.EPOLL_CTL_DEL {
			// the caller did try to remove the registration: if it survives the
			// descriptor, that is the injected failure's doing
			if it := ep.find(fd, target.file); it != nil {
				it.staleReported = true
			}
		}
		return e
	}
	it := ep.find(fd, target.file)
	switch op {
	case unix.EPOLL_CTL_ADD:
		if it != nil {
			k.use(site, fd, "EEXIST")
			return unix.EEXIST
		}
		if target.file.kind == kEpoll || target.file.kind == kCanary {
			k.use(site, fd, "EPERM")
			return unix.EPERM
		}
		it = &epItem{ep: ep, fd: fd, file: target.file, events: events, data: data, seenSeq: -1}
		ep.items = append(ep.items, it)
		target.file.watch = append(target.file.watch, it)
	case unix.EPOLL_CTL_MOD:
		if it == nil {
			k.use(site, fd, "ENOENT")
			return unix.ENOENT
		}
		it.events, it.data, it.seenSeq = events, data, -1
	case unix.EPOLL_CTL_DEL:
		if it == nil {
			k.use(site, fd, "ENOENT")
			return unix.ENOENT
		}
		ep.remove(it)
	default:
		return unix.EINVAL
	}
	k.use(site, fd, "0")
	return 0
}
