package vsys

import (
	"fmt"

	"golang.org/x/sys/unix"
)

// ---- UDP --------------------------------------------------------------------

// Datagram is one datagram in flight or delivered.
type Datagram struct {
	ID      int
	Payload []byte
	From    unix.Sockaddr
}

// UDPRecvRec records which datagram a recvfrom returned (oracle input).
type UDPRecvRec struct {
	Fd   int
	ID   int
	N    int
	From unix.Sockaddr
	Task string
	Step int
}

// UDPSentRec records one datagram the framework sent.
type UDPSentRec struct {
	Fd      int
	Payload []byte
	To      unix.Sockaddr // nil: connected peer
	Task    string
	Step    int
}

// UDPSock is a bound or connected datagram socket.
type UDPSock struct {
	file      *File
	bound     unix.Sockaddr
	key       string
	connected unix.Sockaddr
	queue     []Datagram
	closed    bool
	// a connected socket whose peer port is gone: the datagram it sends is
	// answered by an ICMP port-unreachable, which shows up as a pending socket
	// error (EPOLLERR; the next send/recv on the socket returns ECONNREFUSED once)
	Unreach bool
	soErr   Errno
}

// PendingError reports the pending socket error (0 if none).
func (u *UDPSock) PendingError() Errno { return u.soErr }

// UDPOf returns the UDP socket behind a descriptor (nil if it is none).
func (k *Kernel) UDPOf(fd int) *UDPSock {
	if e := k.fds[fd]; e != nil && e.file.kind == kUDP {
		return e.file.udp
	}
	return nil
}

func (u *UDPSock) close(k *Kernel) {
	u.closed = true
	grp := k.udpBound[u.key]
	for i, f := range grp {
		if f == u.file {
			grp = append(grp[:i], grp[i+1:]...)
			break
		}
	}
	if len(grp) == 0 {
		delete(k.udpBound, u.key)
	} else {
		k.udpBound[u.key] = grp
	}
}

func (u *UDPSock) recv(k *Kernel, fd int, p []byte) (int, unix.Sockaddr, Errno) {
	if u.soErr != 0 {
		e := u.soErr
		u.soErr = 0
		k.Stats["udp-pending-error-reported"]++
		return -1, nil, e
	}
	if len(u.queue) == 0 {
		return -1, nil, unix.EAGAIN
	}
	d := u.queue[0]
	u.queue = u.queue[1:]
	n := copy(p, d.Payload)
	if n < len(d.Payload) {
		k.Stats["udp-truncated"]++
	}
	k.UDPRecv = append(k.UDPRecv, UDPRecvRec{Fd: fd, ID: d.ID, N: n, From: d.From, Task: k.taskName(), Step: k.step()})
	return n, d.From, 0
}

func (u *UDPSock) send(k *Kernel, fd int, p []byte, to unix.Sockaddr) Errno {
	if to == nil && u.connected == nil {
		return unix.EDESTADDRREQ
	}
	if len(p) > 65507 {
		return unix.EMSGSIZE
	}
	if u.soErr != 0 {
		e := u.soErr
		u.soErr = 0
		k.Stats["udp-pending-error-reported"]++
		return e
	}
	if to == nil && u.Unreach {
		// the datagram leaves; the ICMP answer makes the error pending
		u.soErr = unix.ECONNREFUSED
		k.Stats["udp-icmp-unreachable"]++
		u.file.wake()
		return 0
	}
	k.UDPSent = append(k.UDPSent, UDPSentRec{Fd: fd, Payload: append([]byte(nil), p...), To: to, Task: k.taskName(), Step: k.step()})
	return 0
}

// UDPInject delivers a datagram addressed to the bound address key; with a
// reuseport group the receiving socket is chosen by the seed. Returns the
// descriptor-independent datagram id (0 if nobody is bound).
func (k *Kernel) UDPInject(key string, payload []byte, from unix.Sockaddr) int {
	grp := k.udpBound[key]
	if len(grp) == 0 {
		return 0
	}
	f := grp[k.Draw("udpgroup:"+key, len(grp))]
	k.nextDgram++
	f.udp.queue = append(f.udp.queue, Datagram{ID: k.nextDgram, Payload: append([]byte(nil), payload...), From: from})
	f.wake()
	return k.nextDgram
}

// UDPQueued returns the number of datagrams waiting on sockets bound to key.
func (k *Kernel) UDPQueued(key string) int {
	n := 0
	for _, f := range k.udpBound[key] {
		n += len(f.udp.queue)
	}
	return n
}

// UDPKeys lists bound UDP address keys.
func (k *Kernel) UDPKeys() []string {
	var out []string
	for key := range k.udpBound {
		out = append(out, key)
	}
	return out
}

// ---- harness side of stream sockets ----------------------------------------

// ListenKeys lists the address keys that currently have a listener.
func (k *Kernel) ListenKeys() []string {
	var out []string
	for key := range k.listeners {
		out = append(out, key)
	}
	return out
}

// Listening reports whether a listener exists for key (bound and listening).
func (k *Kernel) Listening(key string) bool {
	for _, f := range k.listeners[key] {
		if f.kind == kListener {
			return true
		}
	}
	return false
}

// PeerConnect makes a harness-driven client connect to the listener group of
// key. It returns the client endpoint; the server endpoint waits in the
// accept queue of one member of the group (seed-chosen).
func (k *Kernel) PeerConnect(key string, from unix.Sockaddr) (*Sock, error) {
	var grp []*File
	for _, f := range k.listeners[key] {
		if f.kind == kListener {
			grp = append(grp, f)
		}
	}
	if len(grp) == 0 {
		return nil, unix.ECONNREFUSED
	}
	lf := grp[k.Draw("reuseport:"+key, len(grp))]
	cli := k.newSock(lf.lst.isUnix, true)
	srv := k.newSock(lf.lst.isUnix, false)
	connectPair(cli, srv)
	cli.Local, cli.Remote = from, lf.lst.addr
	srv.Local, srv.Remote = lf.lst.addr, from
	cli.sndCap = k.RcvBuf // what the peer can have in flight is bounded by the server's receive buffer
	if v := lf.opts["rcvbuf"]; v > 0 {
		cli.sndCap = v
	}
	lf.lst.acceptQ = append(lf.lst.acceptQ, srv)
	lf.wake()
	return cli, nil
}

// HarnessPair creates a connected pair for the client path: `app` is the
// application's own socket (what net.Dial would return, owner user), the
// other end is driven by the harness as the remote server.
func (k *Kernel) HarnessPair(isUnix bool, local, remote unix.Sockaddr) (appFd int, app *Sock, remoteEnd *Sock) {
	app = k.newSock(isUnix, false)
	remoteEnd = k.newSock(isUnix, true)
	connectPair(app, remoteEnd)
	app.Local, app.Remote = local, remote
	remoteEnd.Local, remoteEnd.Remote = remote, local
	remoteEnd.sndCap = k.RcvBuf
	f := k.newFile(kStream, OwnUser)
	f.sock = app
	app.file = f
	appFd = k.install(f, OwnUser)
	return
}

// HarnessUDP creates a connected UDP socket owned by the application (client
// path) and returns its descriptor.
func (k *Kernel) HarnessUDP(local, remote unix.Sockaddr) int {
	f := k.newFile(kUDP, OwnUser)
	f.udp = &UDPSock{file: f, bound: local, key: "client-" + AddrKey("udp", local), connected: remote}
	k.udpBound[f.udp.key] = append(k.udpBound[f.udp.key], f)
	return k.install(f, OwnUser)
}

// UserClose closes a descriptor on behalf of the application or harness.
func (k *Kernel) UserClose(fd int) {
	if e := k.fds[fd]; e != nil {
		k.closeFd(fd, e.owner)
	}
}

// PeerSend queues data from a harness endpoint towards its peer as the given
// segments (sizes; the last segment takes the remainder). Returns the bytes
// accepted (bounded by the room in the receiver's buffer).
func (s *Sock) PeerSend(data []byte, segs []int) int {
	if s.closed || s.shutWr || s.peer == nil || s.peer.closed {
		return 0
	}
	room := s.free()
	if room < len(data) {
		data = data[:room]
	}
	n := len(data)
	for _, sz := range segs {
		if sz <= 0 || len(data) == 0 {
			continue
		}
		sz = min(sz, len(data))
		s.peer.wire = append(s.peer.wire, segment{data: append([]byte(nil), data[:sz]...)})
		data = data[sz:]
	}
	if len(data) > 0 {
		s.peer.wire = append(s.peer.wire, segment{data: append([]byte(nil), data...)})
	}
	s.WrittenBytes += n
	return n
}

// PeerRoom is the room a harness endpoint's send finds.
func (s *Sock) PeerRoom() int { return s.free() }

// PeerRecv consumes up to n bytes that arrived at a harness endpoint.
func (s *Sock) PeerRecv(n int) []byte {
	if n > len(s.rcvq) {
		n = len(s.rcvq)
	}
	out := append([]byte(nil), s.rcvq[:n]...)
	s.rcvq = s.rcvq[n:]
	s.ReadBytes += n
	if n > 0 {
		s.spaceFreed()
	}
	return out
}

// PeerAvail is the number of bytes a harness endpoint can read now.
func (s *Sock) PeerAvail() int { return len(s.rcvq) }

// PeerSawFin reports that the other side's FIN (or reset) has arrived.
func (s *Sock) PeerSawFin() bool   { return s.rcvFin || s.reset }
func (s *Sock) PeerSawReset() bool { return s.reset }

// PeerSawFinOrErr reports whether a close cause from the other side (FIN,
// reset, pending error) has reached this endpoint.
func (s *Sock) PeerSawFinOrErr() bool { return s.rcvFin || s.reset || s.soError != 0 }

// PeerGone reports whether the other endpoint has been closed or has shut
// down its sending side (a close cause exists even before its FIN arrives).
func (s *Sock) PeerGone() bool { return s.peer == nil || s.peer.closed || s.peer.shutWr }

// PeekAll returns the unread bytes of a harness endpoint without consuming them.
func (s *Sock) PeekAll() []byte { return s.rcvq }

// PeerShutdownWrite half-closes from the harness endpoint.
func (s *Sock) PeerShutdownWrite() { s.shutdownWrite() }

// PeerClose closes the harness endpoint (FIN, or RST when it has unread data).
func (s *Sock) PeerClose() { s.closeLocal(s.k) }

// PeerAbort resets the connection from the harness endpoint.
func (s *Sock) PeerAbort() {
	if s.closed {
		return
	}
	s.reset = true // forces the RST branch of closeLocal
	s.closeLocal(s.k)
}

// Squeeze makes the send buffer of the endpoint report no room until released.
func (s *Sock) Squeeze(on bool) {
	if s.squeeze == on {
		return
	}
	s.squeeze = on
	if !on && s.nospace && s.writable() {
		s.nospace = false
		if s.file != nil {
			s.file.wake()
		}
	}
}

// Peer returns the other endpoint.
func (s *Sock) Peer() *Sock { return s.peer }

// Closed reports whether the endpoint's last descriptor was closed.
func (s *Sock) Closed() bool { return s.closed }

// Unread is the number of bytes waiting for the endpoint (receive queue plus wire).
func (s *Sock) Unread() int { return s.unread() }

// RcvQueued is the number of bytes in the receive queue proper.
func (s *Sock) RcvQueued() int { return len(s.rcvq) }

// WireLen is the number of segments in flight towards the endpoint.
func (s *Sock) WireLen() int { return len(s.wire) }

// Fd returns the lowest descriptor number referring to the endpoint (-1 none).
func (s *Sock) Fd() int {
	best := -1
	for fd, e := range s.k.fds {
		if e.file == s.file && s.file != nil && (best < 0 || fd < best) {
			best = fd
		}
	}
	return best
}

// SockOfFd returns the stream endpoint behind a descriptor.
func (k *Kernel) SockOfFd(fd int) *Sock {
	if e := k.fds[fd]; e != nil && e.file.kind == kStream {
		return e.file.sock
	}
	return nil
}

// Socks returns every stream endpoint created in the run.
func (k *Kernel) Socks() []*Sock { return k.socks }

// EpollRegistered reports whether fd is registered in some epoll instance and
// with which requested mask.
func (k *Kernel) EpollRegistered(fd int) (bool, uint32) {
	e := k.fds[fd]
	if e == nil {
		return false, 0
	}
	for _, it := range e.file.watch {
		if it.fd == fd {
			return true, it.events
		}
	}
	return false, 0
}

// Describe is a debugging dump of the descriptor table.
func (k *Kernel) Describe() string {
	s := ""
	for _, fd := range append(k.OpenFds(OwnFramework), k.OpenFds(OwnUser)...) {
		e := k.fds[fd]
		s += fmt.Sprintf("[%d %s %s] ", fd, e.owner, e.file.kind)
	}
	return s
}

// InterfaceByName / InterfaceByIndex back vnet's simulated interface table.
func (k *Kernel) InterfaceByName(name string) (Iface, bool) {
	for _, i := range k.ifaces {
		if i.Name == name {
			return i, true
		}
	}
	return Iface{}, false
}
func (k *Kernel) InterfaceByIndex(idx int) (Iface, bool) {
	for _, i := range k.ifaces {
		if i.Index == idx {
			return i, true
		}
	}
	return Iface{}, false
}

// PokeAllEpolls makes every eventfd registered in an epoll instance look
// freshly written without changing its counter semantics beyond +1 (a busy
// neighbour waking the loop).
func (k *Kernel) PokeAllEpolls() {
	for _, e := range k.fds {
		if e.file.kind == kEventfd && len(e.file.watch) > 0 && e.file.efd.counter < efdMax-1 {
			e.file.efd.counter++
			e.file.wake()
			return
		}
	}
}

// SockFaulted reports whether an injected (non-retryable) fault fired on the
// descriptor of this endpoint.
func (k *Kernel) SockFaulted(s *Sock) bool { return s != nil && s.file != nil && k.faulted[s.file] }

// UDPInjectCount is the number of datagrams injected so far (the next one gets this plus one as its id).
func (k *Kernel) UDPInjectCount() int { return k.nextDgram }

// SameFile reports whether two descriptor numbers refer to the same open file description.
func (k *Kernel) SameFile(a, b int) bool {
	ea, eb := k.fds[a], k.fds[b]
	return ea != nil && eb != nil && ea.file == eb.file
}
