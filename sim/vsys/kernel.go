// Package vsys is the simulated Linux kernel the instrumented gnet runs on:
// descriptor table, stream sockets, listeners, UDP sockets, eventfd and epoll,
// plus a ledger of who owns which descriptor number. It only produces
// behaviours Linux can produce; where Linux leaves freedom the run's seed
// chooses (see DESIGN.md §2.2).
//
// Exported functions with the names of golang.org/x/sys/unix functions are the
// seam: the instrumenter redirects gnet's call sites to them. Every one of them
// is a scheduling point (vsched.Yield) followed by an atomic kernel operation.
// The harness side (peers, canaries, users) uses the Kernel methods directly.
package vsys

import (
	"fmt"
	"sort"
	"strconv"

	"golang.org/x/sys/unix"

	"verif/sim/runner"
)

type Errno = unix.Errno

// Owner of a descriptor.
const (
	OwnFramework = "framework" // created through the redirected gnet call sites
	OwnPeer      = "peer"
	OwnUser      = "user" // handed to the application (Dup) or created by it (client sockets)
	OwnCanary    = "canary"
)

type fileKind int

const (
	kStream fileKind = iota
	kListener
	kUDP
	kEventfd
	kEpoll
	kCanary
	kUnbound // socket() result before bind/listen/connect
)

func (k fileKind) String() string {
	return [...]string{"stream", "listener", "udp", "eventfd", "epoll", "canary", "socket"}[k]
}

// File is an open file description (shared by dup'ed descriptors).
type File struct {
	id      int
	kind    fileKind
	refs    int
	wakeSeq int // bumped on every wake-up edge (for edge-triggered epoll items)
	sock    *Sock
	lst     *Listener
	udp     *UDPSock
	efd     *eventfdObj
	ep      *Epoll
	watch   []*epItem // epoll items registered on this file
	family  int
	sotype  int
	opts    map[string]int
	nonblk  bool
	created string // owner at creation
}

type fdEntry struct {
	file   *File
	owner  string
	gen    int
	origin string // the call that created this descriptor: socket, accept, dup, epoll_create, eventfd
}

// Use is one ledger record of a framework call on a descriptor.
type Use struct {
	Gen  int
	Step int
	Task string
	Call string
	Fd   int
	Res  string
}

// LedgerEvent is a violation candidate noticed by the kernel itself.
type LedgerEvent struct {
	Kind string // "use-after-close" | "foreign-descriptor" | "double-close"
	Call string
	Fd   int
	Task string
	Msg  string
	// Was: what the framework last had under this number before somebody else
	// got it ("eventfd", "stream", ...; "" if the framework never owned it).
	Was string
}

type fdHistory struct {
	gens      int
	lastOwner string
	lastKind  fileKind
	closedBy  string
	open      bool
	fwKind    string // kind of the framework's last descriptor under this number
}

// Fault is one injected syscall failure.
type Fault struct {
	Site  string `json:"site"`            // read|write|writev|epoll_ctl_add|epoll_ctl_mod|epoll_ctl_del|close|epoll_wait|accept|recvfrom|sendto|send
	Nth   int    `json:"nth"`             // fires at the Nth call (1-based) of the site (counting calls on framework descriptors)
	Errno int    `json:"errno"`           // errno to return
	Class string `json:"class,omitempty"` // restrict to descriptors of this kind: stream|listener|udp|eventfd ("" any)
	State bool   `json:"state,omitempty"` // stateful: also mark the socket as reset so later calls and epoll agree
	Retry bool   `json:"retry,omitempty"` // a condition the code declares retryable: the descriptor is not a victim
}

// Kernel is the simulated kernel of one run.
type Kernel struct {
	spin     map[string]*spinRec
	SpinMax  int // longest busy-retry streak seen (see use)
	SpinDesc string

	fds      map[int]*fdEntry
	hist     map[int]*fdHistory
	fdBase   int
	nextFile int
	rng      *runner.Rand
	step     func() int
	taskName func() string
	Trace    func(string)

	listeners map[string][]*File // bound address key -> listening files (reuseport group)
	udpBound  map[string][]*File
	unixPaths map[string]bool
	Removed   []string // paths passed to RemoveAll

	Ledger      []LedgerEvent
	Uses        map[int][]Use // per descriptor number, framework calls
	faults      []Fault
	siteCount   map[string]int
	FaultsFired map[string]int
	Stats       map[string]int
	seed        uint64
	drawCount   map[string]int
	faulted     map[*File]bool
	faultedFd   map[int]map[int]bool // fd -> generation -> a fault fired on it

	// knobs
	SndBuf, RcvBuf int
	OutThreshHalf  bool // EPOLLOUT needs free >= used/2 (Linux rule) instead of free >= 1
	CanaryGrab     int  // percent chance that a descriptor closed by the framework is immediately re-opened by a canary
	canaries       []int
	ifaces         []Iface
	nextSock       int
	socks          []*Sock
	AcceptLog      []int // endpoint ids in accept4 order
	OnAccept       func(sockID int)
	UDPRecv        []UDPRecvRec
	UDPSent        []UDPSentRec
	nextDgram      int
	ShortReadLT    int // percent chance that a read in LT mode returns fewer bytes than available (legal for Linux)
	EfdStart       uint64
}

// Iface is one entry of the simulated interface table.
type Iface struct {
	Index int
	Name  string
}

var active *Kernel

// Active returns the kernel of the run in progress.
func Active() *Kernel { return active }

// New creates and activates a kernel.
func New(seed uint64, step func() int, taskName func() string) *Kernel {
	k := &Kernel{
		fds: map[int]*fdEntry{}, hist: map[int]*fdHistory{}, fdBase: 3, rng: runner.NewRand(seed ^ 0x6b65726e),
		step: step, taskName: taskName,
		listeners: map[string][]*File{}, udpBound: map[string][]*File{}, unixPaths: map[string]bool{},
		seed: seed, drawCount: map[string]int{},
		faulted: map[*File]bool{}, faultedFd: map[int]map[int]bool{},
		Uses: map[int][]Use{}, siteCount: map[string]int{}, FaultsFired: map[string]int{}, Stats: map[string]int{},
		SndBuf: 64 << 10, RcvBuf: 64 << 10,
		ifaces: []Iface{{1, "lo"}, {2, "eth0"}, {5, "6to4"}, {7, "wlan7"}},
	}
	active = k
	return k
}

// Deactivate detaches the kernel at the end of a run.
func (k *Kernel) Deactivate() {
	if active == k {
		active = nil
	}
}

func (k *Kernel) SetFdBase(b int)     { k.fdBase = b }
func (k *Kernel) SetFaults(f []Fault) { k.faults = f }

func (k *Kernel) trace(format string, a ...any) {
	if k.Trace != nil {
		k.Trace(fmt.Sprintf(format, a...))
	}
}

func (k *Kernel) newFile(kind fileKind, owner string) *File {
	k.nextFile++
	return &File{id: k.nextFile, kind: kind, opts: map[string]int{}, created: owner}
}

// install allocates the lowest free descriptor number >= fdBase.
func (k *Kernel) install(f *File, owner string) int {
	fd := k.fdBase
	for {
		if _, used := k.fds[fd]; !used {
			break
		}
		fd++
	}
	k.installAt(fd, f, owner)
	return fd
}

func (k *Kernel) installAt(fd int, f *File, owner string) {
	h := k.hist[fd]
	if h == nil {
		h = &fdHistory{}
		k.hist[fd] = h
	}
	h.gens++
	h.open = true
	h.lastOwner = owner
	h.lastKind = f.kind
	if owner == OwnFramework {
		h.fwKind = f.kind.String()
	}
	if h.gens > 1 {
		k.Stats["fd-number-reused"]++
	}
	f.refs++
	k.fds[fd] = &fdEntry{file: f, owner: owner, gen: h.gens}
}

// closeFd releases a descriptor; the file goes away with its last reference.
func (k *Kernel) closeFd(fd int, by string) {
	e := k.fds[fd]
	if e == nil {
		return
	}
	delete(k.fds, fd)
	h := k.hist[fd]
	h.open = false
	h.closedBy = by
	f := e.file
	if k.faulted[f] {
		if k.faultedFd[fd] == nil {
			k.faultedFd[fd] = map[int]bool{}
		}
		k.faultedFd[fd][h.gens] = true
	}
	f.refs--
	// epoll items are keyed by (fd, file): an item whose descriptor is closed
	// survives only while another descriptor still refers to the file
	if f.refs == 0 {
		k.destroy(f)
	}
}

func (k *Kernel) destroy(f *File) {
	for _, it := range f.watch {
		it.ep.remove(it)
	}
	f.watch = nil
	switch f.kind {
	case kStream:
		f.sock.closeLocal(k)
	case kListener:
		f.lst.close(k)
	case kUDP:
		f.udp.close(k)
	case kEpoll:
		for _, it := range append([]*epItem(nil), f.ep.items...) {
			f.ep.remove(it)
		}
	}
}

// Transfer changes the owner of a descriptor (a dup'ed descriptor handed to
// the application).
func (k *Kernel) Transfer(fd int, owner string) {
	if e := k.fds[fd]; e != nil {
		e.owner = owner
		k.hist[fd].lastOwner = owner
	}
}

// Owner returns the owner of an open descriptor ("" if closed).
func (k *Kernel) Owner(fd int) string {
	if e := k.fds[fd]; e != nil {
		return e.owner
	}
	return ""
}

// IsOpen reports whether the descriptor number is open.
func (k *Kernel) IsOpen(fd int) bool { return k.fds[fd] != nil }

// OpenFds lists open descriptor numbers of an owner, sorted.
func (k *Kernel) OpenFds(owner string) []int {
	var out []int
	for fd, e := range k.fds {
		if e.owner == owner {
			out = append(out, fd)
		}
	}
	sort.Ints(out)
	return out
}

// KindOf returns the kind of the file behind an open descriptor.
// OriginOf names the call that created the descriptor currently behind fd.
func (k *Kernel) OriginOf(fd int) string {
	if e := k.fds[fd]; e != nil {
		return e.origin
	}
	return ""
}

func (k *Kernel) KindOf(fd int) string {
	if e := k.fds[fd]; e != nil {
		return e.file.kind.String()
	}
	return ""
}

// frameworkFd validates a descriptor used by a framework call. It returns the
// entry, or nil with the errno to report. Ledger events are recorded for use
// of closed numbers and of numbers that now belong to someone else.
func (k *Kernel) frameworkFd(call string, fd int) (*fdEntry, Errno) {
	if fd < 0 {
		return nil, unix.EBADF
	}
	e := k.fds[fd]
	task := k.taskName()
	if e == nil {
		h := k.hist[fd]
		if h != nil { // a number the simulation has used before
			k.Ledger = append(k.Ledger, LedgerEvent{Kind: "use-after-close", Call: call, Fd: fd, Task: task,
				Msg: fmt.Sprintf("%s on descriptor %d which is closed (last owner %s, kind %s, closed by %s)", call, fd, h.lastOwner, h.lastKind, h.closedBy)})
		} else {
			k.Ledger = append(k.Ledger, LedgerEvent{Kind: "use-after-close", Call: call, Fd: fd, Task: task,
				Msg: fmt.Sprintf("%s on descriptor %d which was never opened", call, fd)})
		}
		k.use(call, fd, "EBADF")
		return nil, unix.EBADF
	}
	if e.owner != OwnFramework {
		was := ""
		if h := k.hist[fd]; h != nil {
			was = h.fwKind
		}
		k.Ledger = append(k.Ledger, LedgerEvent{Kind: "foreign-descriptor", Call: call, Fd: fd, Task: task, Was: was,
			Msg: fmt.Sprintf("%s on descriptor %d which belongs to %s (%s), not to the framework (the framework's last descriptor under this number: %s)", call, fd, e.owner, e.file.kind, was)})
	}
	return e, 0
}

func (k *Kernel) use(call string, fd int, res string) {
	u := Use{Step: k.step(), Task: k.taskName(), Call: call, Fd: fd, Res: res}
	if h := k.hist[fd]; h != nil {
		u.Gen = h.gens
	}
	k.Uses[fd] = append(k.Uses[fd], u)
	k.trace("sys %s %s(%d) -> %s", u.Task, call, fd, res)
	// busy-retry detector: the same task repeating the same call on the same
	// descriptor with the same EAGAIN answer, with no other system call of its
	// own in between (in particular without going back to epoll_wait)
	if k.spin == nil {
		k.spin = map[string]*spinRec{}
	}
	sr := k.spin[u.Task]
	if sr == nil {
		sr = &spinRec{}
		k.spin[u.Task] = sr
	}
	key := call + "|" + strconv.Itoa(fd) + "|" + res
	if res == "EAGAIN" && sr.key == key {
		sr.n++
		if sr.n > k.SpinMax {
			k.SpinMax, k.SpinDesc = sr.n, fmt.Sprintf("task %s: %s(%d) -> EAGAIN repeated %d times in a row without any other system call of that task", u.Task, call, fd, sr.n)
		}
	} else {
		sr.key, sr.n = key, 1
	}
}

type spinRec struct {
	key string
	n   int
}

// fault consults the injected-fault list for one call of a site.
func (k *Kernel) fault(site string, f *File) (Errno, *Fault) {
	class := ""
	if f != nil {
		class = f.kind.String()
	}
	k.siteCount[site]++
	k.siteCount[site+"/"+class]++
	n, nc := k.siteCount[site], k.siteCount[site+"/"+class]
	for i := range k.faults {
		ft := &k.faults[i]
		if ft.Site != site {
			continue
		}
		// with a class the index counts calls on descriptors of that class only
		if ft.Class != "" && (ft.Class != class || ft.Nth != nc) || ft.Class == "" && ft.Nth != n {
			continue
		}
		k.FaultsFired[site+":"+unix.ErrnoName(Errno(ft.Errno))]++
		if f != nil && !ft.Retry {
			k.faulted[f] = true
		}
		return Errno(ft.Errno), ft
	}
	return 0, nil
}

// Rand exposes the kernel's seeded PRNG to the world.
func (k *Kernel) Rand() *runner.Rand { return k.rng }

// Draw returns a number in [0,n) that depends only on the run's seed, the key
// and how often that key has been drawn before. Choices made this way (how
// many segments one arrival carries, which member of a reuseport group gets a
// connection, the order of an epoll batch, whether a canary grabs a number)
// stay the same when an unrelated part of the plan is removed by the shrinker.
func (k *Kernel) Draw(key string, n int) int {
	if n <= 1 {
		return 0
	}
	c := k.drawCount[key]
	k.drawCount[key] = c + 1
	h := k.seed
	for i := 0; i < len(key); i++ {
		h = (h ^ uint64(key[i])) * 1099511628211
	}
	return int(runner.SplitMix(h^uint64(c)*0x9e3779b97f4a7c15) % uint64(n))
}

// FdGen returns the generation counter of a descriptor number.
func (k *Kernel) FdGen(fd int) int {
	if h := k.hist[fd]; h != nil {
		return h.gens
	}
	return 0
}

// FdFaulted reports whether an injected fault fired on the file that is (or
// last was) behind this descriptor number's current generation.
func (k *Kernel) FdFaulted(fd int) bool {
	if e := k.fds[fd]; e != nil {
		return k.faulted[e.file]
	}
	if h := k.hist[fd]; h != nil {
		return k.faultedFd[fd][h.gens]
	}
	return false
}

// SiteCalls returns how many calls each fault site has seen (for fault
// enumeration: the fault-free run records the trace).
func (k *Kernel) SiteCalls() map[string]int {
	out := map[string]int{}
	for s, n := range k.siteCount {
		out[s] = n
	}
	return out
}

// wake bumps the edge counter of a file: every registered edge-triggered item
// becomes reportable once more.
func (f *File) wake() { f.wakeSeq++ }

// ---- canaries -------------------------------------------------------------

// maybeCanary is called after the framework closed a descriptor number.
func (k *Kernel) maybeCanary(fd int) {
	if k.CanaryGrab > 0 && k.Draw(fmt.Sprintf("canary:%d", fd), 100) < k.CanaryGrab {
		f := k.newFile(kCanary, OwnCanary)
		k.installAt(fd, f, OwnCanary)
		k.canaries = append(k.canaries, fd)
		k.Stats["canary-grabbed"]++
	}
}

// Canaries returns the open canary descriptors.
func (k *Kernel) Canaries() []int { return append([]int(nil), k.canaries...) }

// ReleaseCanary closes a canary so the number can be recycled.
func (k *Kernel) ReleaseCanary(fd int) {
	for i, c := range k.canaries {
		if c == fd {
			k.canaries = append(k.canaries[:i], k.canaries[i+1:]...)
			if e := k.fds[fd]; e != nil && e.owner == OwnCanary {
				k.closeFd(fd, OwnCanary)
			}
			return
		}
	}
}
