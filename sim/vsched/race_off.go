//go:build !race

package vsched

const RaceEnabled = false

func EnterHarness() int8 { return 0 }
func EnterGnet() int8    { return 0 }
func Restore(int8)       {}
func Release(*int32)     {}
func Acquire(*int32)     {}
