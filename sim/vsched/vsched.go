// Package vsched is the seeded cooperative scheduler of the simulation.
//
// Every task is a real goroutine, but exactly one is released at a time. A task
// gives control back at a scheduling point (Yield, a blocking simulated
// syscall, exit). The scheduler loop runs on the root goroutine of a
// testing/synctest bubble: synctest.Wait tells it when the released task has
// parked, exited or durably blocked in a Go primitive (channel, errgroup.Wait,
// timer); the bubble's fake clock only advances when nothing is runnable.
// Which option runs next, and for how many consecutive yields, is drawn from
// the run's seed (or taken from a recorded decision list on replay).
package vsched

import (
	"fmt"
	"runtime"
	"runtime/debug"
	"sort"
	"strconv"
	"strings"
	"sync"
	"testing/synctest"
	"time"

	"verif/sim/runner"
)

type tstate int

const (
	tsNew     tstate = iota // created, goroutine not yet parked
	tsParked                // waiting in Yield / a blocked syscall for release
	tsRunning               // released
	tsGoBlock               // released earlier, now durably blocked in a Go primitive
	tsDone
)

// Task is one schedulable goroutine.
type Task struct {
	Name    string
	id      int
	gid     int64
	state   tstate
	site    string
	cond    func() bool // non-nil: parked until cond() holds
	wake    chan struct{}
	rel     int32 // race flavour: released at every park, acquired by JoinAll
	quantum int
	poison  bool
	prio    int
	Steps   int
	// user data for monitors (e.g. the loop a task belongs to)
	Tag any
}

// Return values of OnQuiescent.
const (
	QStop  = iota // end the run loop
	QWait         // let the fake clock advance to the next timer
	QAgain        // the world changed something: look for options again now
)

// Event is an externally driven, atomic step (a peer action, a wire delivery,
// a fault activation). It runs on the scheduler goroutine while every task is
// parked.
type Event struct {
	Name string
	Run  func()
}

type poisonT struct{}

// Poison is the sentinel panic used to unwind tasks at teardown.
var Poison = poisonT{}

// Config of one run.
type Config struct {
	Seed      uint64
	Strategy  string   // random | pct | starve | rr
	Quantum   int      // mean number of yields a released task may pass before parking again (>=1)
	PCTDepth  int      // number of priority change points
	MaxSteps  int      // decisions cap
	Decisions []string // recorded decisions to follow first (replay / shrinking)
	// Sites disabled for this run (a yield there is a no-op): prefix match.
	OffSites []string
}

// Sched is the scheduler of one run.
type Sched struct {
	cfg      Config
	mu       sync.Mutex
	tasks    []*Task
	byG      map[int64]*Task
	cur      *Task
	rng      *runner.Rand
	mapRng   *runner.Rand
	step     int
	decIdx   int
	Diverged int
	// Events is polled at every decision for the external events enabled now.
	Events func() []Event
	// OnQuiescent is called when nothing is runnable, before fake time may
	// advance. It returns false to stop the run loop.
	OnQuiescent func(idleRounds int) int
	// OnStep is called after every decision (invariant hooks).
	OnStep func()
	// OnPanic receives panics that escape a task.
	OnPanic func(task string, v any, stack []byte)
	// Log receives one line per decision (for the event-log hash).
	Log        func(string)
	sigH       runner.Hasher
	Contended  int
	Untracked  int
	arrival    chan struct{}
	fair       bool
	rrNext     int
	pctChange  map[int]bool
	starveWho  string
	starveLeft int
	stop       bool
	stopWhy    string
	start      time.Time
	idle       int
	watchdog   *time.Timer
	Hung       bool
	siteOff    map[string]bool
	lastPick   *Task
	samePick   int
	recQuantum int
	pendingRec int
	// Record makes the scheduler keep the list of decisions that had a choice
	// ("name|quantum"), to be fed back through Config.Decisions.
	Record   bool
	Recorded []string
	Switches int
}

var (
	activeMu sync.Mutex
	active   *Sched
)

// Active returns the scheduler of the run in progress (nil outside a run).
func Active() *Sched {
	defer Restore(EnterHarness())
	activeMu.Lock()
	defer activeMu.Unlock()
	return active
}

func setActive(s *Sched) {
	defer Restore(EnterHarness())
	activeMu.Lock()
	active = s
	activeMu.Unlock()
}

func goid() int64 {
	var buf [40]byte
	n := runtime.Stack(buf[:], false)
	// "goroutine 123 ["
	var id int64
	for i := 10; i < n; i++ {
		c := buf[i]
		if c < '0' || c > '9' {
			break
		}
		id = id*10 + int64(c-'0')
	}
	return id
}

// New creates the scheduler; must be called inside the bubble.
func New(cfg Config) *Sched {
	if cfg.Quantum < 1 {
		cfg.Quantum = 1
	}
	if cfg.MaxSteps <= 0 {
		cfg.MaxSteps = 200000
	}
	s := &Sched{cfg: cfg, byG: map[int64]*Task{}, rng: runner.NewRand(cfg.Seed ^ 0x5ced5ced), arrival: make(chan struct{}, 1), start: time.Now()}
	s.siteOff = map[string]bool{}
	s.mapRng = runner.NewRand(cfg.Seed ^ 0x6d6170)
	if cfg.Strategy == "pct" {
		s.pctChange = map[int]bool{}
		for i := 0; i < cfg.PCTDepth; i++ {
			s.pctChange[s.rng.Intn(max(50, cfg.MaxSteps/50))] = true
		}
	}
	setActive(s)
	return s
}

// Close detaches the scheduler (end of run).
func (s *Sched) Close() { setActive(nil) }

func (s *Sched) Rand() *runner.Rand { return s.rng }
func (s *Sched) Step() int          { return s.step }
func (s *Sched) SimNanos() int64    { return int64(time.Since(s.start)) }
func (s *Sched) Signature() uint64  { return s.sigH.U64() }
func (s *Sched) SetFair(f bool)     { s.fair = f }

// AdvanceClock lets the fake clock of the bubble run for at most d, or until a
// task that was blocked on a timer comes back to a scheduling point. It is
// called from an external event, that is on the scheduler's own goroutine
// while every task is parked: the bubble is then durably blocked and time
// jumps to the next timer.
func (s *Sched) AdvanceClock(d time.Duration) {
	defer Restore(EnterHarness())
	select {
	case <-s.arrival:
	default:
	}
	select {
	case <-s.arrival:
	case <-time.After(d):
	}
}
func (s *Sched) Stop(why string) {
	if !s.stop {
		s.stop, s.stopWhy = true, why
	}
}
func (s *Sched) StopWhy() string { return s.stopWhy }

// Resume clears the stop flag so that Loop can be entered again (a second
// phase with newly spawned tasks).
func (s *Sched) Resume() { s.stop, s.stopWhy, s.idle = false, "", 0 }

// Current returns the task on whose goroutine the caller runs (nil if the
// goroutine is not a task).
func (s *Sched) Current() *Task {
	defer Restore(EnterHarness())
	g := goid()
	s.mu.Lock()
	t := s.byG[g]
	s.mu.Unlock()
	return t
}

// CurrentName is a convenience for monitors.
func CurrentName() string {
	if s := Active(); s != nil {
		if t := s.Current(); t != nil {
			return t.Name
		}
	}
	return ""
}

func (s *Sched) newTask(name string) *Task {
	defer Restore(EnterHarness())
	s.mu.Lock()
	defer s.mu.Unlock()
	// deterministic unique name
	base, n := name, 0
	for {
		dup := false
		for _, t := range s.tasks {
			if t.Name == name {
				dup = true
				break
			}
		}
		if !dup {
			break
		}
		n++
		name = base + "#" + strconv.Itoa(n)
	}
	t := &Task{Name: name, id: len(s.tasks), wake: make(chan struct{}, 1), state: tsNew}
	t.prio = s.rng.Intn(1 << 20)
	s.tasks = append(s.tasks, t)
	return t
}

// enter binds the calling goroutine to t and parks it until first released.
func (s *Sched) enter(t *Task) {
	defer Restore(EnterHarness())
	g := goid()
	s.mu.Lock()
	t.gid = g
	s.byG[g] = t
	t.state = tsParked
	t.site = "start"
	s.mu.Unlock()
	s.notifyArrival()
	<-t.wake
	if t.poison {
		panic(Poison)
	}
}

func (s *Sched) exit(t *Task) {
	Release(&t.rel) // (race flavour) what the task did is ordered before the end of the run
	defer Restore(EnterHarness())
	s.mu.Lock()
	t.state = tsDone
	delete(s.byG, t.gid)
	s.mu.Unlock()
	s.notifyArrival()
}

func (s *Sched) notifyArrival() {
	defer Restore(EnterHarness())
	select {
	case s.arrival <- struct{}{}:
	default:
	}
}

// Go starts f as a new task. The task object exists (with a deterministic
// name) when Go returns; its goroutine parks before running f.
func (s *Sched) Go(name string, f func()) *Task {
	t := s.newTask(name)
	old := EnterGnet() // (race flavour) the creation edge parent -> child is a real one
	go func() {
		EnterHarness()
		defer func() {
			r := recover()
			s.taskPanic(t, r)
			s.exit(t)
		}()
		s.enter(t)
		f()
	}()
	Restore(old)
	return t
}

// taskPanic routes a panic that escaped a task to the run's hook (a panic in
// the code under test is a finding, not a crash of the harness).
func (s *Sched) taskPanic(t *Task, r any) {
	if r == nil || r == any(Poison) {
		return
	}
	if s.OnPanic != nil {
		s.OnPanic(t.Name, r, debug.Stack())
		return
	}
	panic(r)
}

// WrapErr wraps a function handed to errgroup.Group.Go (instrumenter rule R3).
func WrapErr(name string, f func() error) func() error {
	s := Active()
	if s == nil {
		return f
	}
	t := s.newTask(name)
	return func() (err error) {
		EnterHarness()
		defer func() {
			r := recover()
			s.taskPanic(t, r)
			s.exit(t)
		}()
		s.enter(t)
		defer Restore(EnterGnet())
		return f()
	}
}

// Submit replaces the ants worker pool (rule R3): one task per submission.
func Submit(f func()) error {
	s := Active()
	if s == nil {
		go f()
		return nil
	}
	s.Go("worker", func() { defer Restore(EnterGnet()); f() })
	return nil
}

var resetFuncs []func()

// RegisterReset is called from export files injected into the scratch copy of
// the code under test: f restores one piece of process-wide state.
func RegisterReset(f func()) { resetFuncs = append(resetFuncs, f) }

// ResetGlobals runs the registered resets (start of every run). It reports how
// many were registered so that the evidence can say whether the export files
// were in place.
func ResetGlobals() int {
	for _, f := range resetFuncs {
		f()
	}
	return len(resetFuncs)
}

var hooks = map[string]func(any) any{}

// RegisterHook publishes a read-only accessor from an injected export file.
func RegisterHook(name string, f func(any) any) { hooks[name] = f }

// Hook returns a registered accessor (nil when the export file is absent).
func Hook(name string) func(any) any { return hooks[name] }

// GoStmt replaces a `go` statement (rule R3).
func GoStmt(f func()) {
	s := Active()
	if s == nil {
		go f()
		return
	}
	s.Go("go", func() { defer Restore(EnterGnet()); f() })
}

// AfterWait / AfterRecv wrap a blocking expression (rule R6): the goroutine
// that the Go runtime woke parks again before it touches shared state.
func AfterWait[T any](v T) T { Yield("post-block"); return v }
func AfterRecv[T any](v T) T { Yield("post-block"); return v }

// MapKeys returns the keys of m in a seed-determined order (rule R5).
func MapKeys[M ~map[K]V, K comparable, V any](m M) []K {
	keys := make([]K, 0, len(m))
	for k := range m { // (race flavour: this read of the map belongs to the code under test)
		keys = append(keys, k)
	}
	defer Restore(EnterHarness())
	sort.Slice(keys, func(i, j int) bool { return fmt.Sprint(keys[i]) < fmt.Sprint(keys[j]) })
	if s := Active(); s != nil {
		r := s.mapRng
		for i := len(keys) - 1; i > 0; i-- {
			j := r.Intn(i + 1)
			keys[i], keys[j] = keys[j], keys[i]
		}
	}
	return keys
}

// Poke wakes the scheduler loop when it is idling on the fake clock (used by
// simulated timeouts).
func Poke() {
	if s := Active(); s != nil {
		s.notifyArrival()
	}
}

// SiteOff reports whether yields at site are disabled in this run.
func (s *Sched) siteDisabled(site string) bool {
	if len(s.cfg.OffSites) == 0 {
		return false
	}
	if v, ok := s.siteOff[site]; ok {
		return v
	}
	off := false
	for _, p := range s.cfg.OffSites {
		if len(site) >= len(p) && site[:len(p)] == p {
			off = true
			break
		}
	}
	s.siteOff[site] = off
	return off
}

// Yield is a scheduling point. Called from instrumented code and from vsys.
func Yield(site string) {
	s := Active()
	if s == nil {
		return
	}
	s.yield(site, nil)
}

// Block parks the calling task until cond holds (evaluated by the scheduler
// while every task is parked). Used for blocking simulated syscalls.
func Block(site string, cond func() bool) {
	s := Active()
	if s == nil {
		panic("vsched.Block outside a run")
	}
	s.yield(site, cond)
}

func (s *Sched) yield(site string, cond func() bool) {
	defer Restore(EnterHarness())
	g := goid()
	s.mu.Lock()
	t := s.byG[g]
	if t == nil {
		s.Untracked++
		s.mu.Unlock()
		return
	}
	if t.poison {
		s.mu.Unlock()
		panic(Poison)
	}
	if cond == nil && t.state == tsRunning && t == s.cur {
		if s.siteDisabled(site) {
			s.mu.Unlock()
			return
		}
		if t.quantum > 0 {
			t.quantum--
			t.Steps++
			s.mu.Unlock()
			return
		}
	}
	t.state = tsParked
	t.site = site
	t.cond = cond
	s.mu.Unlock()
	Release(&t.rel) // (race flavour) a release nobody acquires before the run is over (JoinAll)
	s.notifyArrival()
	<-t.wake
	if t.poison {
		panic(Poison)
	}
}

// JoinAll orders everything the tasks of this run did (up to the last time
// each of them parked or exited) before what the caller does next. Without it
// the race detector would see the tasks of consecutive runs as concurrent.
func (s *Sched) JoinAll() {
	for _, t := range s.tasks {
		Acquire(&t.rel)
	}
}

type option struct {
	name string
	task *Task
	ev   *Event
	prio int
}

func (s *Sched) options() []option {
	var opts []option
	s.mu.Lock()
	for _, t := range s.tasks {
		if t.state == tsParked && (t.cond == nil || t.cond()) {
			opts = append(opts, option{name: t.Name, task: t, prio: t.prio})
		}
	}
	s.mu.Unlock()
	if s.Events != nil {
		evs := s.Events()
		for i := range evs {
			opts = append(opts, option{name: "~" + evs[i].Name, ev: &evs[i], prio: int(runner.SplitMix(s.cfg.Seed^hashStr(evs[i].Name)) % (1 << 20))})
		}
	}
	sort.SliceStable(opts, func(i, j int) bool { return opts[i].name < opts[j].name })
	return opts
}

func hashStr(s string) uint64 {
	var h uint64 = 1469598103934665603
	for i := 0; i < len(s); i++ {
		h = (h ^ uint64(s[i])) * 1099511628211
	}
	return h
}

func (s *Sched) choose(opts []option) int {
	s.recQuantum = -1
	if len(opts) == 1 {
		return 0
	}
	// recorded decisions first (only decisions that had a choice are recorded)
	for s.decIdx < len(s.cfg.Decisions) {
		want := s.cfg.Decisions[s.decIdx]
		s.decIdx++
		name, q := want, 0
		if k := strings.LastIndexByte(want, '|'); k >= 0 {
			name = want[:k]
			q, _ = strconv.Atoi(want[k+1:])
		}
		for i := range opts {
			if opts[i].name == name {
				s.recQuantum = q
				return i
			}
		}
		// the recorded option does not exist here (the plan was shrunk): skip it
		s.Diverged++
	}
	if s.fair {
		// round-robin over names: the first option whose name is greater than
		// the last one picked
		s.rrNext++
		return s.rrNext % len(opts)
	}
	switch s.cfg.Strategy {
	case "pct":
		best := 0
		for i := range opts {
			if opts[i].prio > opts[best].prio {
				best = i
			}
		}
		if t := opts[best].task; t != nil {
			// fairness bound: a task that spins (a retry loop waiting for a
			// starved peer task) would otherwise run forever under fixed
			// priorities; real schedulers are fair
			if t == s.lastPick {
				s.samePick++
			} else {
				s.lastPick, s.samePick = t, 0
			}
			if s.pctChange[s.step] || s.samePick > 400 {
				t.prio = -s.step // lowest so far
				s.samePick = 0
			}
		}
		return best
	case "starve":
		if s.starveLeft <= 0 && s.rng.Chance(1, 40) {
			s.starveWho = opts[s.rng.Intn(len(opts))].name
			s.starveLeft = s.rng.Range(5, 60)
		}
		if s.starveLeft > 0 {
			s.starveLeft--
			var idx []int
			for i := range opts {
				if opts[i].name != s.starveWho {
					idx = append(idx, i)
				}
			}
			if len(idx) > 0 {
				return idx[s.rng.Intn(len(idx))]
			}
		}
		return s.rng.Intn(len(opts))
	default:
		return s.rng.Intn(len(opts))
	}
}

// Loop runs the schedule until Stop is called, the step cap is hit, or the
// system is dead (nothing runnable, no timer progress allowed).
func (s *Sched) Loop() {
	defer Restore(EnterHarness())
	for !s.stop {
		synctest.Wait()
		s.settle()
		// arrivals up to here are reflected in the task states
		select {
		case <-s.arrival:
		default:
		}
		if s.OnStep != nil && s.step > 0 {
			s.OnStep()
			if s.stop {
				break
			}
		}
		opts := s.options()
		if len(opts) == 0 {
			s.idle++
			act := QStop
			if s.OnQuiescent != nil {
				act = s.OnQuiescent(s.idle)
			}
			if act == QStop {
				s.Stop("quiescent")
				break
			}
			if s.stop {
				break
			}
			if act == QAgain {
				continue
			}
			// let fake time advance to the next timer: block durably until a
			// task arrives at a scheduling point, or give up after a long
			// simulated silence
			select {
			case <-s.arrival:
			case <-time.After(2 * time.Hour):
				s.Stop("dead")
			}
			continue
		}
		s.idle = 0
		if s.step >= s.cfg.MaxSteps {
			s.Stop("step-cap")
			break
		}
		i := s.choose(opts)
		o := opts[i]
		s.step++
		runner.Tick()
		if len(opts) > 1 && s.Record {
			s.pendingRec = len(s.Recorded)
			s.Recorded = append(s.Recorded, o.name)
		} else {
			s.pendingRec = -1
		}
		if len(opts) > 1 {
			s.Contended++
			site := ""
			if o.task != nil {
				site = o.task.site
			}
			s.sigH.Add(o.name + "@" + site)
		}
		if s.Log != nil {
			if o.task != nil {
				s.Log("d " + o.name + " @" + o.task.site)
			} else {
				s.Log("d " + o.name)
			}
		}
		if o.ev != nil {
			s.cur = nil
			o.ev.Run()
		} else {
			t := o.task
			if s.cur != t {
				s.Switches++
			}
			s.mu.Lock()
			t.state = tsRunning
			t.cond = nil
			t.Steps++
			if s.recQuantum >= 0 {
				t.quantum = s.recQuantum
			} else if s.fair {
				t.quantum = 0
			} else if s.cfg.Quantum > 1 {
				// geometric-ish: mostly short, sometimes long
				t.quantum = s.rng.Intn(2 * s.cfg.Quantum)
			} else {
				t.quantum = 0
			}
			if s.pendingRec >= 0 {
				s.Recorded[s.pendingRec] += "|" + strconv.Itoa(t.quantum)
			}
			s.cur = t
			s.mu.Unlock()
			t.wake <- struct{}{}
		}
	}
}

// settle classifies the task that was released last: if it neither parked nor
// exited it is durably blocked in a Go primitive.
func (s *Sched) settle() {
	defer Restore(EnterHarness())
	s.mu.Lock()
	for _, t := range s.tasks {
		if t.state == tsRunning {
			t.state = tsGoBlock
		}
	}
	s.mu.Unlock()
}

// Alive lists tasks that have not exited, with their state (diagnostics and
// liveness oracles).
func (s *Sched) Alive() []string {
	defer Restore(EnterHarness())
	s.mu.Lock()
	defer s.mu.Unlock()
	var out []string
	for _, t := range s.tasks {
		if t.state != tsDone {
			out = append(out, fmt.Sprintf("%s:%s@%s", t.Name, [...]string{"new", "parked", "running", "goblocked", "done"}[t.state], t.site))
		}
	}
	return out
}

// TaskState returns the state of a task by name: "", "parked", "goblocked", "done".
func (s *Sched) TaskState(name string) (state, site string, blockedOnCond bool) {
	defer Restore(EnterHarness())
	s.mu.Lock()
	defer s.mu.Unlock()
	for _, t := range s.tasks {
		if t.Name == name {
			return [...]string{"new", "parked", "running", "goblocked", "done"}[t.state], t.site, t.cond != nil
		}
	}
	return "", "", false
}

// Teardown poisons every task that is still parked so that its goroutine
// unwinds; returns the names of tasks that could not be unwound (blocked in Go
// primitives).
func (s *Sched) Teardown() (stuck []string) {
	defer Restore(EnterHarness())
	for round := 0; round < 10000; round++ {
		synctest.Wait()
		s.settle()
		var next *Task
		s.mu.Lock()
		for _, t := range s.tasks {
			if t.state == tsParked {
				next = t
				break
			}
		}
		if next != nil {
			next.poison = true
			next.state = tsRunning
		}
		s.mu.Unlock()
		if next == nil {
			break
		}
		next.wake <- struct{}{}
	}
	synctest.Wait()
	s.mu.Lock()
	for _, t := range s.tasks {
		if t.state != tsDone && !(t.state == tsNew && t.gid == 0) {
			stuck = append(stuck, t.Name+"@"+t.site)
		}
	}
	s.mu.Unlock()
	return
}
