//go:build race

package vsched

import (
	"runtime"
	"sync/atomic"
)

// RaceEnabled: the binary carries the Go race detector (the "+race" flavour).
// That flavour is linked against a runtime with two small additions made
// through a build overlay (see cmd/check, raceOverlay): a goroutine whose
// "ignore" depth is non-zero is ignored by the detector altogether (memory
// accesses too, not only synchronisation), and runtime.RaceIgnoreSwap sets
// that depth. The harness runs with depth 1 ("harness context"), the code
// under test with depth 0 ("gnet context"). So the detector sees exactly the
// accesses and the synchronisation of the code under test: the scheduler's
// hand-offs, which serialise everything, order nothing in its eyes, and the
// harness's own state, shared between tasks under that serialisation, is not
// reported.
const RaceEnabled = true

// EnterHarness / EnterGnet switch the context of the calling goroutine and
// return the previous one for Restore.
func EnterHarness() int8 { return runtime.RaceIgnoreSwap(1) }
func EnterGnet() int8    { return runtime.RaceIgnoreSwap(0) }
func Restore(old int8)   { runtime.RaceIgnoreSwap(old) }

// Release / Acquire create a happens-before edge the detector can see, from
// whatever the releasing goroutine did in gnet context so far to whatever the
// acquiring goroutine does from now on. The harness uses them where a
// well-behaved application synchronises by itself (handing a connection from
// OnOpen to another goroutine, joining its goroutines).
func Release(x *int32) { old := EnterGnet(); atomic.AddInt32(x, 1); Restore(old) }
func Acquire(x *int32) { old := EnterGnet(); atomic.LoadInt32(x); Restore(old) }
