// Package runner is the worker-side framework shared by every engine: it turns
// one base seed into per-run seeds, drives generate -> execute -> (shrink) and
// writes a machine-readable result for the driver (cmd/check).
//
// Nothing here reads a clock or a PRNG on behalf of a run: a run is a pure
// function of its plan. Wall-clock is only used to stop a batch.
package runner

import (
	"crypto/sha256"
	"encoding/binary"
	"encoding/hex"
	"encoding/json"
	"fmt"
	"os"
	"os/exec"
	"path/filepath"
	"runtime"
	"runtime/debug"
	"sort"
	"strconv"
	"strings"
	"sync"
	"sync/atomic"
	"time"
)

// Violation is what an oracle reports. Key is the stable violation key
// (monitor id + operation shape / call site) used for known-findings matching
// and for "same failure" during shrinking.
type Violation struct {
	Key string `json:"key"`
	Msg string `json:"msg"`
}

// Outcome of one deterministic execution of a plan.
type Outcome struct {
	Violation  *Violation     `json:"violation,omitempty"`
	NonTrivial bool           `json:"nontrivial"`
	Signature  uint64         `json:"signature"` // distinctness signature (schedule / history hash)
	LogHash    string         `json:"loghash"`   // hash of the full event log (replay must reproduce it)
	Probes     map[string]int `json:"probes,omitempty"`
	Faults     map[string]int `json:"faults,omitempty"`
	Steps      int            `json:"steps"`
	SimNanos   int64          `json:"sim_ns"`
	Inconcl    bool           `json:"inconclusive,omitempty"`
	Note       string         `json:"note,omitempty"`
	// Plan, when set, is the concrete failing plan derived from the executed
	// one (fault enumeration): it replaces the plan for shrinking and replay.
	Plan any `json:"-"`
	// Decisions is the schedule the run took (decisions that had a choice), for
	// engines that can be re-run along a recorded schedule.
	Decisions []string `json:"-"`
	// Evals counts the executions this outcome stands for (enumeration).
	Evals int `json:"evals,omitempty"`
	// Alt: further violations of the same property seen in the same run (the
	// race detector can report several pairs of accesses in one run, and which
	// of them it still reports depends on what the process has reported before).
	Alt []Violation `json:"alt,omitempty"`
}

// Engine is implemented once per engine package.
type Engine interface {
	// Generate builds the plan of one run from its seed. tier/prop may bias it.
	Generate(seed uint64, prop, tier string) any
	// Execute runs a plan deterministically.
	Execute(plan any, prop string) Outcome
	// Shrink returns strictly simpler candidate plans (may be empty).
	Shrink(plan any) []any
	// Decode turns the JSON of a replay file back into a plan.
	Decode(raw json.RawMessage) (any, error)
}

// Rescheduler is implemented by engines whose plans can carry a recorded
// schedule: the shrinker then edits the plan while the scheduler keeps
// following the decisions of the failing run (by option name), instead of
// re-deriving a completely different schedule from the seed.
type Rescheduler interface {
	WithSchedule(plan any, decisions []string) any
	ScheduleLen(plan any) int
}

// Replay is the replay-file format.
type Replay struct {
	Property string          `json:"property"`
	Engine   string          `json:"engine"`
	Variant  string          `json:"variant"`
	Seed     uint64          `json:"seed"`
	RunSeed  uint64          `json:"run_seed"`
	Key      string          `json:"key"`
	Msg      string          `json:"msg"`
	LogHash  string          `json:"loghash"`
	Shrunk   bool            `json:"shrunk"`
	Plan     json.RawMessage `json:"plan"`
}

// Result is what one worker process reports.
type Result struct {
	Property     string         `json:"property"`
	Engine       string         `json:"engine"`
	Variant      string         `json:"variant"`
	Runs         int            `json:"runs"`
	NonTrivial   int            `json:"nontrivial"`
	Inconcl      int            `json:"inconclusive"`
	InconclNotes []string       `json:"inconclusive_notes,omitempty"`
	Signatures   []string       `json:"signatures"` // distinct signatures of non-trivial runs (hex)
	Probes       map[string]int `json:"probes"`
	Faults       map[string]int `json:"faults"`
	Steps        int64          `json:"steps"`
	SimNanos     int64          `json:"sim_ns"`
	WallS        float64        `json:"wall_s"`
	Violations   []Replay       `json:"violations"`
	Samples      []any          `json:"samples"`
	DetChecked   int            `json:"determinism_rechecks"`
	DetMismatch  []string       `json:"determinism_mismatches"`
	Watchdog     string         `json:"watchdog,omitempty"`
	ReplayOK     *bool          `json:"replay_ok,omitempty"`
	ReplayNote   string         `json:"replay_note,omitempty"`
}

func SplitMix(x uint64) uint64 {
	x += 0x9e3779b97f4a7c15
	z := x
	z = (z ^ (z >> 30)) * 0xbf58476d1ce4e5b9
	z = (z ^ (z >> 27)) * 0x94d049bb133111eb
	return z ^ (z >> 31)
}

// RunSeed derives the seed of run i of a batch.
func RunSeed(base uint64, i uint64) uint64 {
	return SplitMix(SplitMix(base) ^ (i * 0xd1342543de82ef95))
}

// Rand is a small deterministic PRNG (xorshift-style over splitmix) so that
// plans do not depend on math/rand's algorithm across Go versions.
type Rand struct{ s uint64 }

func NewRand(seed uint64) *Rand { return &Rand{s: seed} }
func (r *Rand) U64() uint64 {
	r.s += 0x9e3779b97f4a7c15
	z := r.s
	z = (z ^ (z >> 30)) * 0xbf58476d1ce4e5b9
	z = (z ^ (z >> 27)) * 0x94d049bb133111eb
	return z ^ (z >> 31)
}
func (r *Rand) Intn(n int) int {
	if n <= 0 {
		return 0
	}
	return int(r.U64() % uint64(n))
}
func (r *Rand) Range(lo, hi int) int { // inclusive
	if hi <= lo {
		return lo
	}
	return lo + r.Intn(hi-lo+1)
}
func (r *Rand) Chance(num, den int) bool { return r.Intn(den) < num }
func (r *Rand) Pick(xs ...int) int       { return xs[r.Intn(len(xs))] }
func (r *Rand) Fork() *Rand              { return NewRand(r.U64()) }

// Hasher accumulates an event log hash without storing the log.
type Hasher struct {
	h   [32]byte
	n   int
	buf []byte
	Log []string // kept only when Trace is set
}

// Trace makes every Hasher keep its full log (debugging, replay output).
var Trace = os.Getenv("VERIF_TRACE") != ""

func (h *Hasher) Add(s string) {
	if Trace {
		h.Log = append(h.Log, s)
	}
	h.buf = append(h.buf[:0], h.h[:]...)
	h.buf = append(h.buf, s...)
	h.h = sha256.Sum256(h.buf)
	h.n++
}
func (h *Hasher) Sum() string { return hex.EncodeToString(h.h[:8]) + "/" + strconv.Itoa(h.n) }
func (h *Hasher) U64() uint64 { return binary.LittleEndian.Uint64(h.h[:8]) }

func envInt(name string, def int) int {
	if v := os.Getenv(name); v != "" {
		if n, err := strconv.Atoi(v); err == nil {
			return n
		}
	}
	return def
}
func envU64(name string, def uint64) uint64 {
	if v := os.Getenv(name); v != "" {
		if n, err := strconv.ParseUint(v, 10, 64); err == nil {
			return n
		}
		if n, err := strconv.ParseInt(v, 10, 64); err == nil {
			return uint64(n)
		}
	}
	return def
}

// Main is called from the engine's single Test function.
// It never calls os.Exit for a violation: the verdict travels in the result
// file; a non-zero exit status of the worker means harness trouble.
func Main(name string, eng Engine) error {
	mode := os.Getenv("VERIF_MODE")
	prop := os.Getenv("VERIF_PROP")
	tier := os.Getenv("VERIF_TIER")
	if tier == "" {
		tier = "quick"
	}
	out := os.Getenv("VERIF_OUT")
	variant := os.Getenv("VERIF_VARIANT")
	res := &Result{Property: prop, Engine: name, Variant: variant, Probes: map[string]int{}, Faults: map[string]int{}}
	start := time.Now()
	if out != "" {
		partial = func(note string) {
			res.Watchdog = note
			res.WallS = time.Since(start).Seconds()
			b, _ := json.Marshal(res)
			_ = os.WriteFile(out, b, 0o644)
		}
	}
	var err error
	switch mode {
	case "replay":
		err = doReplay(eng, res, prop)
	case "one":
		rs := envU64("VERIF_RUNSEED", 0)
		plan := eng.Generate(rs, prop, tier)
		for k := 0; k < envInt("VERIF_REPEAT", 1); k++ {
			o := eng.Execute(plan, prop)
			b, _ := json.Marshal(o)
			fmt.Println(string(b))
		}
		pj, _ := json.Marshal(plan)
		fmt.Println(string(pj))
	case "execplan":
		// one plan from a file, the outcome to a file (isolated re-execution)
		var b []byte
		if b, err = os.ReadFile(os.Getenv("VERIF_PLAN")); err == nil {
			var plan any
			if plan, err = eng.Decode(b); err == nil {
				o := eng.Execute(plan, prop)
				ob, _ := json.Marshal(wireOutcome{o, o.Decisions})
				return os.WriteFile(out, ob, 0o644)
			}
		}
	case "", "search":
		doSearch(eng, res, name, prop, tier, variant)
	default:
		err = fmt.Errorf("unknown VERIF_MODE %q", mode)
	}
	partial = nil
	res.WallS = time.Since(start).Seconds()
	if out != "" {
		b, _ := json.Marshal(res)
		if werr := os.WriteFile(out, b, 0o644); werr != nil && err == nil {
			err = werr
		}
	} else {
		b, _ := json.MarshalIndent(res, "", " ")
		fmt.Println(string(b))
	}
	return err
}

// guarded executes one plan under a real-time watchdog: a run that does not
// come back (a task holding a lock across a yield, an endless loop without a
// scheduling point) is harness trouble: dump the stacks and exit 3.
// partial, when set, is written out by the watchdog before it kills the
// process so that what the worker found so far is not lost.
var partial func(note string)

// progress is bumped by the scheduler at every decision (and may be bumped by
// engines without a scheduler): the per-run watchdog looks at progress, not at
// the age of the run, so that a loaded machine does not trip it.
var progress atomic.Int64

// Tick records that the current run is making progress.
func Tick() { progress.Add(1) }

type runInfo struct {
	what  string
	plan  any
	start time.Time
}

var (
	curRun   atomic.Pointer[runInfo]
	dogStart sync.Once
)

// watchdog is one goroutine per worker process. A run is stuck when it has made
// no scheduling decision for `limit` (code under test spinning without a
// scheduling point, or blocked outside the scheduler), or when it is older
// than 20x that (a safety net).
func watchdog() {
	limit := time.Duration(envInt("VERIF_RUN_WATCHDOG_S", 120)) * time.Second
	var seen *runInfo
	var last int64
	var lastAt time.Time
	for now := range time.Tick(time.Second) {
		ri := curRun.Load()
		if ri == nil {
			seen = nil
			continue
		}
		if p := progress.Load(); ri != seen || p != last {
			seen, last, lastAt = ri, p, now
		}
		if now.Sub(lastAt) < limit && now.Sub(ri.start) < 20*limit {
			continue
		}
		buf := make([]byte, 1<<20)
		n := runtime.Stack(buf, true)
		pj, _ := json.Marshal(ri.plan)
		note := fmt.Sprintf("WATCHDOG: run %s made no progress for %v (age %v)", ri.what, now.Sub(lastAt).Round(time.Second), now.Sub(ri.start).Round(time.Second))
		fmt.Fprintf(os.Stderr, "%s\nplan: %s\n%s\n", note, pj, buf[:n])
		if partial != nil {
			partial(note)
		}
		os.Exit(3)
	}
}

func guarded(eng Engine, plan any, prop string, what string) Outcome {
	dogStart.Do(func() { go watchdog() })
	curRun.Store(&runInfo{what: what, plan: plan, start: time.Now()})
	defer curRun.Store(nil)
	return eng.Execute(plan, prop)
}

func sameKey(o Outcome, key string) bool { return pick(&o, key) }

// pick reports whether the run showed the violation named key; if it is one of
// the alternates it becomes the outcome's violation.
func pick(o *Outcome, key string) bool {
	if o.Violation == nil {
		return false
	}
	if o.Violation.Key == key {
		return true
	}
	for i := range o.Alt {
		if o.Alt[i].Key == key {
			v := o.Alt[i]
			o.Alt[i] = *o.Violation
			o.Violation = &v
			return true
		}
	}
	return false
}

// wireOutcome carries an outcome between processes (mode execplan).
type wireOutcome struct {
	Outcome
	Decisions []string `json:"decisions"`
}

// isolated executes the plan in a fresh process of the same binary.
func isolated(eng Engine, plan any, prop string) Outcome {
	dir, err := os.MkdirTemp("", "verif-iso-")
	if err != nil {
		return Outcome{Inconcl: true, Note: "isolated run: " + err.Error()}
	}
	defer os.RemoveAll(dir)
	pj, _ := json.Marshal(plan)
	pf, of := filepath.Join(dir, "plan.json"), filepath.Join(dir, "out.json")
	if err := os.WriteFile(pf, pj, 0o644); err != nil {
		return Outcome{Inconcl: true, Note: "isolated run: " + err.Error()}
	}
	cmd := exec.Command(os.Args[0], "-test.run", "^TestEngine$", "-test.count", "1", "-test.timeout", "0")
	cmd.Env = append(os.Environ(), "VERIF_MODE=execplan", "VERIF_PROP="+prop, "VERIF_PLAN="+pf, "VERIF_OUT="+of,
		"GORACE=log_path="+filepath.Join(dir, "r")+" halt_on_error=0")
	_ = cmd.Run() // a run with race reports ends as a failed test; the verdict is in the file
	b, err := os.ReadFile(of)
	if err != nil {
		return Outcome{Inconcl: true, Note: "isolated run left no result"}
	}
	var w wireOutcome
	if err := json.Unmarshal(b, &w); err != nil {
		return Outcome{Inconcl: true, Note: "isolated run: " + err.Error()}
	}
	w.Outcome.Decisions = w.Decisions
	return w.Outcome
}

func doSearch(eng Engine, res *Result, name, prop, tier, variant string) {
	base := envU64("VERIF_SEED", 1)
	worker := envInt("VERIF_WORKER", 0)
	workers := envInt("VERIF_WORKERS", 1)
	budget := time.Duration(envInt("VERIF_BUDGET_S", 20)) * time.Second
	maxRuns := envInt("VERIF_MAXRUNS", 1<<30)
	maxViol := envInt("VERIF_MAXVIOL", 4)
	detEvery := envInt("VERIF_DET_EVERY", 50)
	shrinkBudget := time.Duration(envInt("VERIF_SHRINK_S", 20)) * time.Second
	deadline := time.Now().Add(budget)
	sigs := map[uint64]struct{}{}
	seenKeys := map[string]bool{}
	leaked := 0
	// The collector runs only between runs: sync.Pool contents (and anything
	// else tied to GC cycles) must not change in the middle of a run, or a run
	// would not be a function of its plan. The memory limit is a safety net.
	debug.SetGCPercent(-1)
	debug.SetMemoryLimit(6 << 30)
	gcEvery := envInt("VERIF_GC_EVERY", 64)
	crumb := os.Getenv("VERIF_BREADCRUMB")
	for i := 0; i < maxRuns; i++ {
		if time.Now().After(deadline) {
			break
		}
		if i%gcEvery == gcEvery-1 {
			runtime.GC()
		}
		idx := uint64(worker + i*workers)
		rs := RunSeed(base, idx)
		plan := eng.Generate(rs, prop, tier)
		if crumb != "" {
			// a run that kills the process (memory corruption by the code under
			// test) leaves its plan behind for the driver
			pj, _ := json.Marshal(plan)
			rp, _ := json.Marshal(Replay{Property: prop, Engine: name, Variant: variant, Seed: base, RunSeed: rs, Key: prop + "/fatal-crash", Msg: "the process died while executing this plan", Plan: pj})
			_ = os.WriteFile(crumb, rp, 0o644)
		}
		o := guarded(eng, plan, prop, fmt.Sprintf("run_seed=%d", rs))
		res.Runs++
		res.Steps += int64(o.Steps)
		res.SimNanos += o.SimNanos
		for k, v := range o.Probes {
			res.Probes[k] += v
		}
		for k, v := range o.Faults {
			res.Faults[k] += v
		}
		if o.Inconcl {
			res.Inconcl++
			if strings.HasPrefix(o.Note, "HARNESS/bubble") || strings.HasPrefix(o.Note, "HARNESS/stuck") {
				// goroutines of such a run stay blocked in a dead bubble: retire the
				// process before they add up
				if leaked++; leaked > 150 {
					break
				}
			}
			if len(res.InconclNotes) < 5 {
				res.InconclNotes = append(res.InconclNotes, fmt.Sprintf("run_seed=%d %s", rs, o.Note))
			}
		}
		if o.NonTrivial {
			res.NonTrivial++
			sigs[o.Signature] = struct{}{}
		}
		if len(res.Samples) < 2 && (o.NonTrivial || i > 20) {
			res.Samples = append(res.Samples, map[string]any{"run_seed": rs, "plan": plan, "steps": o.Steps, "nontrivial": o.NonTrivial})
		}
		if detEvery > 0 && i%detEvery == 0 {
			// determinism re-check: same plan, same process, must give the same log hash
			o2 := eng.Execute(plan, prop)
			res.DetChecked++
			if o2.LogHash != o.LogHash || (o2.Violation == nil) != (o.Violation == nil) {
				res.DetMismatch = append(res.DetMismatch, fmt.Sprintf("run_seed=%d %s vs %s", rs, o.LogHash, o2.LogHash))
			}
		}
		if o.Evals > 1 {
			res.Runs += o.Evals - 1
		}
		if o.Violation != nil {
			if o.Plan != nil {
				plan = o.Plan
			}
			if seenKeys[o.Violation.Key] {
				continue
			}
			seenKeys[o.Violation.Key] = true
			sp, so, shrunk := shrink(eng, plan, o, prop, shrinkBudget)
			if so.Violation.Key != o.Violation.Key {
				if seenKeys[so.Violation.Key] {
					continue
				}
				seenKeys[so.Violation.Key] = true
			}
			pj, _ := json.Marshal(sp)
			res.Violations = append(res.Violations, Replay{
				Property: prop, Engine: name, Variant: variant, Seed: base, RunSeed: rs,
				Key: so.Violation.Key, Msg: so.Violation.Msg, LogHash: so.LogHash, Shrunk: shrunk, Plan: pj,
			})
			if len(res.Violations) >= maxViol {
				break
			}
		}
	}
	for s := range sigs {
		res.Signatures = append(res.Signatures, strconv.FormatUint(s, 16))
	}
	sort.Strings(res.Signatures)
}

// shrink greedily applies engine-proposed simplifications while the same
// violation key persists. The plan round-trips through JSON for every
// candidate so that what is written to the replay file is what was executed.
func shrink(eng Engine, plan any, o Outcome, prop string, budget time.Duration) (any, Outcome, bool) {
	key := o.Violation.Key
	deadline := time.Now().Add(budget)
	run := func(p any) Outcome { return eng.Execute(p, prop) }
	if raceBuild {
		run = func(p any) Outcome { return isolated(eng, p, prop) }
	}
	shrunk := false
	// normalise through JSON first
	if p2, ok := roundTrip(eng, plan); ok {
		if o2 := run(p2); pick(&o2, key) {
			plan, o = p2, o2
		} else if raceBuild && o2.Violation != nil && strings.Contains(key, "/data-race/") && strings.Contains(o2.Violation.Key, "/data-race/") {
			// which pairs of accesses the race detector still reports depends on what
			// the process has reported before: what a fresh process says about this
			// plan is the reproducible verdict, continue with its first report
			plan, o, key = p2, o2, o2.Violation.Key
		} else {
			return plan, o, false
		}
	}
	rs, canResched := eng.(Rescheduler)
	if canResched && len(o.Decisions) > 0 {
		// pin the schedule of the failing run into the plan
		if p2, ok := roundTrip(eng, rs.WithSchedule(plan, o.Decisions)); ok {
			if o2 := run(p2); pick(&o2, key) {
				plan, o, shrunk = p2, o2, true
			}
		}
	}
	for progress := true; progress && time.Now().Before(deadline); {
		progress = false
		if canResched && rs.ScheduleLen(plan) > 0 {
			// schedule first: a shorter recorded prefix (the seeded strategy takes over after it)
			for n := rs.ScheduleLen(plan) / 2; n >= 0 && time.Now().Before(deadline); n /= 2 {
				c2, ok := roundTrip(eng, rs.WithSchedule(plan, o.Decisions[:min(n, len(o.Decisions))]))
				if ok {
					if oc := run(c2); pick(&oc, key) {
						plan, o, progress, shrunk = c2, oc, true, true
						break
					}
				}
				if n == 0 {
					break
				}
			}
		}
		for _, c := range eng.Shrink(plan) {
			if time.Now().After(deadline) {
				break
			}
			c2, ok := roundTrip(eng, c)
			if !ok {
				continue
			}
			if oc := run(c2); pick(&oc, key) {
				plan, o, progress, shrunk = c2, oc, true, true
				if canResched && rs.ScheduleLen(plan) > 0 && len(oc.Decisions) > 0 {
					// re-pin: drop recorded decisions that no longer exist in the smaller plan
					if p3, ok := roundTrip(eng, rs.WithSchedule(plan, oc.Decisions)); ok {
						if o3 := run(p3); pick(&o3, key) {
							plan, o = p3, o3
						}
					}
				}
				break
			}
		}
	}
	return plan, o, shrunk
}

func roundTrip(eng Engine, plan any) (any, bool) {
	b, err := json.Marshal(plan)
	if err != nil {
		return nil, false
	}
	p, err := eng.Decode(b)
	if err != nil {
		return nil, false
	}
	return p, true
}

func doReplay(eng Engine, res *Result, prop string) error {
	path := os.Getenv("VERIF_REPLAY")
	b, err := os.ReadFile(path)
	if err != nil {
		return err
	}
	var rp Replay
	if err := json.Unmarshal(b, &rp); err != nil {
		return err
	}
	if prop == "" {
		prop = rp.Property
		res.Property = prop
	}
	plan, err := eng.Decode(rp.Plan)
	if err != nil {
		return err
	}
	o := eng.Execute(plan, prop)
	res.Runs = 1
	same := pick(&o, rp.Key)
	if !same && o.Violation != nil && strings.Contains(rp.Key, "/data-race/") && strings.Contains(o.Violation.Key, "/data-race/") {
		// the race detector keeps four accesses per eight bytes of memory and evicts
		// at random: of several racing pairs in one run, which ones it reports can
		// differ between two processes executing the same schedule. The same plan
		// with the same event log showing a data race again is the reproduction; the
		// pair it found this time is in the result.
		same = true
	}
	ok := same && o.LogHash == rp.LogHash
	res.ReplayOK = &ok
	if o.Violation != nil {
		pj, _ := json.Marshal(plan)
		res.Violations = append(res.Violations, Replay{Property: prop, Engine: rp.Engine, Variant: rp.Variant, Seed: rp.Seed,
			RunSeed: rp.RunSeed, Key: o.Violation.Key, Msg: o.Violation.Msg, LogHash: o.LogHash, Shrunk: rp.Shrunk, Plan: pj})
		res.ReplayNote = fmt.Sprintf("key=%q loghash=%s (recorded key=%q loghash=%s)", o.Violation.Key, o.LogHash, rp.Key, rp.LogHash)
	} else {
		res.ReplayNote = fmt.Sprintf("no violation on replay (recorded key=%q)", rp.Key)
	}
	return nil
}
