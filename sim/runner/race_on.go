//go:build race

package runner

// raceBuild: the race detector reports each pair of conflicting stacks once
// per process, so a plan has to be re-executed in a process of its own to see
// whether it still shows a given race (shrinking).
const raceBuild = true
