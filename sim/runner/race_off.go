//go:build !race

package runner

const raceBuild = false
