// Command vinstr instruments a copy of the repository (debugging aid; the
// check driver calls the same library).
package main

import (
	"fmt"
	"os"
	"strings"

	"verif/sim/instr"
)

func main() {
	if len(os.Args) == 4 && os.Args[1] == "raceoverlay" {
		ov, err := instr.RaceRuntimeOverlay(os.Args[2], os.Args[3])
		if err != nil {
			fmt.Fprintln(os.Stderr, err)
			os.Exit(2)
		}
		fmt.Println(ov)
		return
	}
	if len(os.Args) < 3 {
		fmt.Fprintln(os.Stderr, "usage: vinstr <src> <dst> [tags,comma] [small] | vinstr raceoverlay <goroot> <outdir>")
		os.Exit(2)
	}
	opt := instr.Options{}
	if len(os.Args) > 3 && os.Args[3] != "" && os.Args[3] != "-" {
		opt.Tags = strings.Split(os.Args[3], ",")
	}
	opt.SmallKnobs = len(os.Args) > 4 && strings.Contains(os.Args[4], "small")
	opt.Race = len(os.Args) > 4 && strings.Contains(os.Args[4], "race")
	rep, err := instr.Instrument(os.Args[1], os.Args[2], opt)
	if err != nil {
		fmt.Fprintln(os.Stderr, err)
		os.Exit(2)
	}
	fmt.Printf("files=%d rewrites=%v skipped=%v\n", rep.Files, rep.Rewrites, rep.Skipped)
}
