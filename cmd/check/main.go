// Command check is the driver behind every MANIFEST.json command:
//
//	check <ID> [--tier quick|thorough] [--seed N] [--budget S] [--workers N]
//	check <ID> --replay <file>
//
// It rebuilds the engine for the property from /repo's current working tree
// (instrumenting a scratch copy where the engine needs the simulated kernel and
// scheduler), runs seeded worker processes, verifies every violation by
// replaying it in a fresh process, writes evidence and replay files and maps
// the outcome to the exit codes 0 (held) / 1 (VIOLATION) / 2 (harness trouble).
package main

import (
	"crypto/sha256"
	"encoding/hex"
	"encoding/json"
	"flag"
	"fmt"
	"os"
	"os/exec"
	"path/filepath"
	"runtime"
	"sort"
	"strconv"
	"strings"
	"sync"
	"time"

	"verif/sim/runner"
)

// verifDir is the directory the driver works in: the current directory when it
// looks like the verification tree (MANIFEST commands run with cwd=/verif; a
// background snapshot runs in its own copy), /verif otherwise.
var verifDir = func() string {
	if wd, err := os.Getwd(); err == nil {
		if _, err := os.Stat(filepath.Join(wd, "cmd", "check")); err == nil {
			return wd
		}
	}
	return "/verif"
}()

var repoDir = envOr("VERIF_REPO", "/repo")

func envOr(k, d string) string {
	if v := os.Getenv(k); v != "" {
		return v
	}
	return d
}

type knownFinding struct {
	Property string `json:"property"`
	Key      string `json:"key"`
	Status   string `json:"status"` // known | fixed
	Commit   string `json:"commit,omitempty"`
	What     string `json:"what"`
}

func loadKnown() []knownFinding {
	b, err := os.ReadFile(filepath.Join(verifDir, "known_findings.json"))
	if err != nil {
		return nil
	}
	var k struct {
		Findings []knownFinding `json:"findings"`
	}
	if err := json.Unmarshal(b, &k); err != nil {
		fatal2("known_findings.json does not parse: %v", err)
	}
	return k.Findings
}

func fatal2(format string, a ...any) {
	fmt.Fprintf(os.Stderr, "HARNESS-ERROR: "+format+"\n", a...)
	os.Exit(2)
}

func goEnv() []string {
	env := os.Environ()
	env = append(env, "GOFLAGS=-mod=mod", "GOPROXY=off", "GOSUMDB=off", "GOTOOLCHAIN=local", "CGO_ENABLED=0")
	return env
}

func goBin() string {
	for _, c := range []string{"/opt/veriftools/go1.26.8/bin/go", "go1.26.8"} {
		if p, err := exec.LookPath(c); err == nil {
			return p
		}
	}
	fatal2("go1.26.8 toolchain not found")
	return ""
}

type build struct {
	engine  string
	variant string
	bin     string
}

func main() {
	if len(os.Args) < 2 {
		fmt.Fprintln(os.Stderr, "usage: check <ID>|selftest-... [flags]")
		os.Exit(2)
	}
	id := os.Args[1]
	fs := flag.NewFlagSet("check", flag.ExitOnError)
	tier := fs.String("tier", envOr("VERIF_TIER", "quick"), "quick|thorough")
	replay := fs.String("replay", "", "replay file")
	seedFlag := fs.String("seed", os.Getenv("VERIF_SEED"), "base seed")
	budget := fs.Int("budget", 0, "seconds of search per build variant (0: tier default)")
	workers := fs.Int("workers", 0, "worker processes (0: all cores)")
	keep := fs.Bool("keep", false, "keep the scratch directory")
	_ = fs.Parse(os.Args[2:])
	if *tier != "quick" && *tier != "thorough" {
		*tier = "quick"
	}
	pc, ok := props[id]
	if !ok {
		if st, ok := selftests[id]; ok {
			os.Exit(st(*tier))
		}
		fatal2("unknown property or command %q", id)
	}
	var seed uint64 = 20260925
	if *tier == "thorough" {
		seed = 77020260925
	}
	if *seedFlag != "" {
		if v, err := strconv.ParseUint(*seedFlag, 10, 64); err == nil {
			seed = v
		} else if v, err := strconv.ParseInt(*seedFlag, 10, 64); err == nil {
			seed = uint64(v)
		}
	}
	nw := *workers
	if nw <= 0 {
		nw = min(16, runtime.NumCPU())
	}
	start := time.Now()
	scratch, err := os.MkdirTemp("", "verif-"+id+"-")
	if err != nil {
		fatal2("mktemp: %v", err)
	}
	cleanup := func() {
		if !*keep {
			_ = os.RemoveAll(scratch)
		}
	}
	defer cleanup()
	code := run(pc, id, *tier, seed, *budget, nw, *replay, scratch, start)
	cleanup()
	os.Exit(code)
}

func run(pc *propCfg, id, tier string, seed uint64, budget, nw int, replayFile, scratch string, start time.Time) int {
	stages := append([]*propCfg{pc}, pc.extra...)
	var rp runner.Replay
	if replayFile != "" {
		if a, err := filepath.Abs(replayFile); err == nil {
			replayFile = a
		}
		b, err := os.ReadFile(replayFile)
		if err != nil {
			fatal2("read replay: %v", err)
		}
		if err := json.Unmarshal(b, &rp); err != nil {
			fatal2("parse replay: %v", err)
		}
		var keep []*propCfg
		for _, st := range stages {
			if st.engine == rp.Engine || rp.Engine == "" {
				keep = append(keep, st)
				break
			}
		}
		if len(keep) == 0 {
			fatal2("replay file names engine %q which does not serve %s", rp.Engine, id)
		}
		stages = keep
	}
	var builds []build
	for _, st := range stages {
		variants := st.variants(tier)
		if replayFile != "" {
			variants = []string{rp.Variant}
		}
		bs, berr := buildEngine(st, variants, scratch)
		if berr != nil {
			fatal2("build failed:\n%v", berr)
		}
		builds = append(builds, bs...)
	}
	if replayFile != "" {
		return doReplay(pc, id, builds[0], replayFile, scratch)
	}
	if budget <= 0 {
		budget = pc.budget(tier)
	}
	// split workers over variants
	type job struct {
		b      build
		worker int
		of     int
	}
	var jobs []job
	per := max(1, nw/len(builds))
	for _, b := range builds {
		for w := 0; w < per; w++ {
			jobs = append(jobs, job{b, w, per})
		}
	}
	results := make([]*runner.Result, len(jobs))
	errs := make([]error, len(jobs))
	var wg sync.WaitGroup
	for i, j := range jobs {
		wg.Add(1)
		go func(i int, j job) {
			defer wg.Done()
			out := filepath.Join(scratch, fmt.Sprintf("res-%s-%s-%d.json", j.b.engine, j.b.variant, j.worker))
			env := append(os.Environ(),
				"VERIF_MODE=search", "VERIF_PROP="+id, "VERIF_TIER="+tier, "VERIF_VARIANT="+j.b.variant,
				"VERIF_SEED="+strconv.FormatUint(seed, 10), "VERIF_WORKER="+strconv.Itoa(j.worker),
				"VERIF_WORKERS="+strconv.Itoa(j.of), "VERIF_BUDGET_S="+strconv.Itoa(budget), "VERIF_OUT="+out)
			env = append(env, pc.extraEnv(tier)...)
			env = append(env, raceEnv(scratch, j.b.variant, i)...)
			if pc.crashIsViolation {
				env = append(env, "VERIF_BREADCRUMB="+filepath.Join(scratch, fmt.Sprintf("crumb-%d.json", i)))
			}
			results[i], errs[i] = runWorker(j.b.bin, env, out, time.Duration(budget)*time.Second+pc.grace(tier))
		}(i, j)
	}
	wg.Wait()
	crashed := 0
	var died []string
	for i, e := range errs {
		if e == nil {
			continue
		}
		crumb := filepath.Join(scratch, fmt.Sprintf("crumb-%d.json", i))
		b, rerr := os.ReadFile(crumb)
		if pc.crashIsViolation && rerr == nil && (strings.Contains(e.Error(), "signal:") || strings.Contains(e.Error(), "fatal error") || strings.Contains(e.Error(), "unexpected fault address")) {
			// the code under test corrupted memory badly enough to kill the
			// process: for a memory-ownership property that is the violation
			h := sha256.Sum256(b)
			path := filepath.Join(outDir("replays"), fmt.Sprintf("%s-crash-%s.json", id, hex.EncodeToString(h[:5])))
			_ = os.MkdirAll(filepath.Dir(path), 0o755)
			_ = os.WriteFile(path, b, 0o644)
			fmt.Printf("VIOLATION property=%s replay=%s\n  key=%s/fatal-crash the worker process died (%s) while executing the plan in the replay file\n", id, path, id, firstLine(e.Error()))
			crashed++
			results[i] = &runner.Result{Probes: map[string]int{}, Faults: map[string]int{}}
			continue
		}
		// a worker that died (out of memory, fatal runtime error caused by the
		// tree under test, watchdog of the driver): keep what the others found
		died = append(died, fmt.Sprintf("worker %d (%s/%s): %s", i, jobs[i].b.engine, jobs[i].b.variant, firstLine(e.Error())))
		fmt.Fprintf(os.Stderr, "WORKER-DIED: worker %d (%s/%s) failed: %v\n", i, jobs[i].b.engine, jobs[i].b.variant, tail(e.Error(), 1500))
		results[i] = &runner.Result{Probes: map[string]int{}, Faults: map[string]int{}}
	}
	// merge
	agg := &runner.Result{Probes: map[string]int{}, Faults: map[string]int{}}
	sigs := map[string]struct{}{}
	var viols []runner.Replay
	seen := map[string]bool{}
	byVariant := map[string]int{}
	var watchdogs []string
	for _, r := range results {
		if r.Watchdog != "" {
			watchdogs = append(watchdogs, r.Watchdog)
		}
		agg.Runs += r.Runs
		agg.NonTrivial += r.NonTrivial
		agg.Inconcl += r.Inconcl
		agg.Steps += r.Steps
		agg.SimNanos += r.SimNanos
		agg.DetChecked += r.DetChecked
		agg.DetMismatch = append(agg.DetMismatch, r.DetMismatch...)
		byVariant[r.Engine+"/"+r.Variant] += r.Runs
		for k, v := range r.Probes {
			agg.Probes[k] += v
		}
		for k, v := range r.Faults {
			agg.Faults[k] += v
		}
		for _, s := range r.Signatures {
			sigs[s] = struct{}{}
		}
		if len(agg.Samples) < 3 {
			agg.Samples = append(agg.Samples, r.Samples...)
		}
		for _, v := range r.Violations {
			if !seen[v.Engine+"|"+v.Variant+"|"+v.Key] {
				seen[v.Engine+"|"+v.Variant+"|"+v.Key] = true
				viols = append(viols, v)
			}
		}
	}
	sort.Slice(viols, func(i, j int) bool { return viols[i].Key < viols[j].Key })
	// verify + classify violations
	known := loadKnown()
	exit := 0
	nViol := crashed
	if crashed > 0 {
		exit = 1
	}
	var lines []string
	binOf := map[string]string{}
	for _, b := range builds {
		binOf[b.engine+"|"+b.variant] = b.bin
	}
	for _, v := range viols {
		kf := matchKnown(known, id, v.Key)
		if kf != nil {
			l := fmt.Sprintf("KNOWN-FINDING: property=%s %s [key=%s]", id, kf.What, v.Key)
			dup := false
			for _, o := range lines {
				dup = dup || o == l // one line per finding, however many build variants met it
			}
			if dup {
				continue
			}
			lines = append(lines, l)
			continue
		}
		nViol++
		h := sha256.Sum256([]byte(v.Engine + "|" + v.Variant + "|" + v.Key))
		path := filepath.Join(outDir("replays"), fmt.Sprintf("%s-%s.json", id, hex.EncodeToString(h[:5])))
		b, _ := json.MarshalIndent(v, "", " ")
		_ = os.MkdirAll(filepath.Dir(path), 0o755)
		if err := os.WriteFile(path, b, 0o644); err != nil {
			fatal2("write replay: %v", err)
		}
		// replay in a fresh process
		note := ""
		out := filepath.Join(scratch, "replay-"+hex.EncodeToString(h[:5])+".json")
		env := append(os.Environ(), "VERIF_MODE=replay", "VERIF_PROP="+id, "VERIF_REPLAY="+path, "VERIF_VARIANT="+v.Variant, "VERIF_OUT="+out)
		env = append(env, pc.extraEnv(tier)...)
		env = append(env, raceEnv(scratch, v.Variant, 1000+nViol)...)
		rr, err := runWorker(binOf[v.Engine+"|"+v.Variant], env, out, 5*time.Minute)
		switch {
		case err != nil:
			note = " replay_verified=false (" + err.Error() + ")"
		case rr.ReplayOK == nil || !*rr.ReplayOK:
			note = " replay_verified=false (" + rr.ReplayNote + ")"
		default:
			note = " replay_verified=true"
		}
		fmt.Printf("VIOLATION property=%s replay=%s\n", id, path)
		fmt.Printf("  key=%s variant=%s shrunk=%v%s\n  %s\n", v.Key, v.Variant, v.Shrunk, note, v.Msg)
		exit = 1
	}
	for _, l := range lines {
		fmt.Println(l)
	}
	wall := time.Since(start).Seconds()
	workersLost = len(died) + len(watchdogs)
	writeEvidence(pc, id, tier, seed, agg, len(sigs), byVariant, nViol, lines, wall, budget, len(jobs))
	fmt.Printf("%s %s: %d runs (%d non-trivial, %d distinct), %d steps, %d violation(s), %d known finding(s), %.1fs\n",
		id, tier, agg.Runs, agg.NonTrivial, len(sigs), agg.Steps, nViol, len(lines), wall)
	if exit == 0 && agg.Runs == 0 {
		fatal2("no run was executed")
	}
	if len(agg.DetMismatch) > 0 {
		// re-executed runs that differ: process-wide state leaks from one run
		// into the next (in the harness, or introduced by the tree under test).
		// Without a violation that is harness trouble; with one, the violation
		// (verified by replay in a fresh process) stands.
		fmt.Fprintf(os.Stderr, "NONDETERMINISM: %d of %d re-executed runs differed, e.g. %s\n", len(agg.DetMismatch), agg.DetChecked, agg.DetMismatch[0])
		if exit == 0 {
			return 2
		}
	}
	lost := len(died) + len(watchdogs)
	if len(watchdogs) > 0 {
		fmt.Fprintf(os.Stderr, "WATCHDOG: %d worker(s) were stopped by the per-run watchdog, e.g. %s\n", len(watchdogs), watchdogs[0])
	}
	if lost > 0 && exit == 0 {
		// Workers that died or got stuck without any violation to explain it are
		// harness trouble, not a verdict. A few lost workers among many (a loaded
		// machine, one pathological run) only cost coverage - what the others
		// explored stands and the loss is recorded in the evidence; when half of
		// them or more are lost the tree (or the harness) is not behaving and the
		// check refuses to answer.
		if 2*lost >= len(jobs) {
			first := ""
			if len(died) > 0 {
				first = died[0]
			} else {
				first = watchdogs[0]
			}
			fmt.Fprintf(os.Stderr, "HARNESS-ERROR: %d of %d worker(s) were lost and no violation was found by the others: %s\n", lost, len(jobs), first)
			return 2
		}
		fmt.Fprintf(os.Stderr, "WORKERS-LOST: %d of %d worker(s) were lost (coverage reduced, see evidence diagnostics)\n", lost, len(jobs))
	}
	return exit
}

func matchKnown(known []knownFinding, id, key string) *knownFinding {
	for i := range known {
		k := &known[i]
		if k.Status == "known" && k.Property == id && k.Key == key {
			return k
		}
	}
	return nil
}

func runWorker(bin string, env []string, out string, timeout time.Duration) (*runner.Result, error) {
	cmd := exec.Command(bin, "-test.run", "^TestEngine$", "-test.timeout", "0", "-test.count", "1")
	cmd.Env = env
	cmd.Dir = filepath.Dir(bin)
	var buf strings.Builder
	cmd.Stdout, cmd.Stderr = &buf, &buf
	if err := cmd.Start(); err != nil {
		return nil, err
	}
	done := make(chan error, 1)
	go func() { done <- cmd.Wait() }()
	select {
	case err := <-done:
		if err != nil {
			// a worker killed by its per-run watchdog leaves partial results behind;
			// a worker of the race flavour ends as a failed test when the detector
			// reported anything (the reports are in its results as violations)
			if b, rerr := os.ReadFile(out); rerr == nil {
				var r runner.Result
				if json.Unmarshal(b, &r) == nil && (r.Watchdog != "" || strings.Contains(buf.String(), "race detected during execution of test")) {
					return &r, nil
				}
			}
			return nil, fmt.Errorf("%v\n%s", err, tail(buf.String(), 4000))
		}
	case <-time.After(timeout):
		_ = cmd.Process.Kill()
		<-done
		return nil, fmt.Errorf("watchdog: worker exceeded %v\n%s", timeout, tail(buf.String(), 4000))
	}
	b, err := os.ReadFile(out)
	if err != nil {
		return nil, fmt.Errorf("no result file: %v\n%s", err, tail(buf.String(), 4000))
	}
	var r runner.Result
	if err := json.Unmarshal(b, &r); err != nil {
		return nil, err
	}
	return &r, nil
}

func firstLine(s string) string {
	if i := strings.IndexByte(s, '\n'); i >= 0 {
		return s[:i]
	}
	return s
}

func tail(s string, n int) string {
	if len(s) > n {
		return "..." + s[len(s)-n:]
	}
	return s
}

func doReplay(pc *propCfg, id string, b build, file, scratch string) int {
	out := filepath.Join(scratch, "replay.json")
	env := append(os.Environ(), "VERIF_MODE=replay", "VERIF_PROP="+id, "VERIF_REPLAY="+file, "VERIF_VARIANT="+b.variant, "VERIF_OUT="+out, "VERIF_TRACE=")
	env = append(env, pc.extraEnv("quick")...)
	env = append(env, raceEnv(scratch, b.variant, 2000)...)
	rr, err := runWorker(b.bin, env, out, 10*time.Minute)
	if err != nil {
		if pc.crashIsViolation && strings.Contains(err.Error(), "signal:") {
			abs, _ := filepath.Abs(file)
			fmt.Printf("VIOLATION property=%s replay=%s\n  the worker process died again while executing the plan (%s)\n", id, abs, firstLine(err.Error()))
			return 1
		}
		fatal2("replay worker: %v", err)
	}
	fmt.Println(rr.ReplayNote)
	if len(rr.Violations) > 0 {
		abs, _ := filepath.Abs(file)
		fmt.Printf("VIOLATION property=%s replay=%s\n  %s\n", id, abs, rr.Violations[0].Msg)
		if rr.ReplayOK != nil && *rr.ReplayOK {
			fmt.Println("  reproduced exactly (same violation key and event-log hash)")
		} else {
			fmt.Println("  violation reproduced with a different key or log hash")
		}
		return 1
	}
	fmt.Println("replay did not produce a violation on this tree")
	return 0
}

// outDir is where evidence and replay files go: the verification tree itself,
// except when the check is pointed at another tree than /repo (sensitivity
// runs against scratch worktrees must not overwrite the real evidence).
func outDir(sub string) string {
	if repoDir != "/repo" {
		d := filepath.Join(os.TempDir(), "verif-alt-tree", sub)
		_ = os.MkdirAll(d, 0o755)
		return d
	}
	return filepath.Join(verifDir, sub)
}

// workersLost: workers that died or were stopped by the per-run watchdog in this check.
var workersLost int

func writeEvidence(pc *propCfg, id, tier string, seed uint64, agg *runner.Result, distinct int, byVariant map[string]int, nViol int, known []string, wall float64, budget, jobs int) {
	cov := map[string]any{
		"evaluations":         agg.Runs,
		"distinct_nontrivial": distinct,
		"rule":                pc.rule,
		"samples":             agg.Samples,
		"nontrivial_runs":     agg.NonTrivial,
		"diagnostics":         map[string]any{"inconclusive_runs": agg.Inconcl, "workers_lost": workersLost},
		"scheduler_steps":     agg.Steps,
		"simulated_seconds":   float64(agg.SimNanos) / 1e9,
		"runs_per_hour":       int(float64(agg.Runs) / max(wall, 0.001) * 3600),
		"faults_fired":        agg.Faults,
		"probes":              agg.Probes,
		"runs_by_variant":     byVariant,
		"components":          pc.components,
		"determinism_rechecks": map[string]any{
			"re_executed": agg.DetChecked, "mismatches": len(agg.DetMismatch),
		},
		"search_budget_s_per_variant": budget,
		"worker_processes":            jobs,
		"known_findings_reported":     known,
		"exhaustive":                  false,
	}
	var gaps []string
	for _, p := range pc.wantProbes {
		if agg.Probes[p] == 0 {
			gaps = append(gaps, p)
		}
	}
	cov["probes_stuck_at_zero"] = gaps
	ev := map[string]any{
		"property_id": id,
		"tier":        tier,
		"seed":        int64(seed & 0x7fffffffffffffff),
		"level":       pc.level,
		"coverage":    cov,
		"assumptions": pc.assumptions,
		"wall_s":      wall,
		"violations":  nViol,
	}
	b, _ := json.MarshalIndent(ev, "", " ")
	path := filepath.Join(outDir("evidence"), id+".json")
	_ = os.MkdirAll(filepath.Dir(path), 0o755)
	if err := os.WriteFile(path, b, 0o644); err != nil {
		fatal2("write evidence: %v", err)
	}
}
