package main

import (
	"fmt"
	"os"
	"os/exec"
	"path/filepath"
	"strings"
	"time"
)

type propCfg struct {
	engine       string
	instrumented bool
	level        string
	rule         string
	components   map[string][]string
	assumptions  []string
	wantProbes   []string
	quickS       int
	thoroughS    int
	variantsQ    []string
	variantsT    []string
	env          []string
}

func (p *propCfg) variants(tier string) []string {
	v := p.variantsQ
	if tier == "thorough" && len(p.variantsT) > 0 {
		v = p.variantsT
	}
	if len(v) == 0 {
		return []string{"default"}
	}
	return v
}

func (p *propCfg) budget(tier string) int {
	if tier == "thorough" {
		return p.thoroughS
	}
	return p.quickS
}

func (p *propCfg) grace(tier string) time.Duration {
	if tier == "thorough" {
		return 10 * time.Minute
	}
	return 4 * time.Minute
}

func (p *propCfg) extraEnv(string) []string { return p.env }

var bufComponents = map[string][]string{
	"real": {"pkg/buffer/ring", "pkg/buffer/elastic", "pkg/buffer/linkedlist", "pkg/pool/byteslice", "pkg/pool/ringbuffer", "pkg/math"},
	"stub": {"io.Reader / io.Writer arguments (scripted: short, (n>0,EOF), (0,EOF), (0,nil), (n,err); short-accepting and failing writers)", "ring-buffer pool state (reset and seeded from the plan before each run)", "byte-slice pool pre-poisoned with dirty memory"},
}

var bufAssumptions = []string{
	"the harness is a well-behaved caller: writers follow the io.Writer contract (short accept implies error), slices returned by Peek are examined before the next mutating call",
	"operations whose result the statement leaves open (error values, Discard(n<=0), Peek(n>Buffered) on list-based buffers) are exercised for panics only",
	"seeded sampling of operation histories, not enumeration: a clean batch is evidence, not proof",
}

var props = map[string]*propCfg{
	"C09": {
		engine: "vbuf", level: "exploration", quickS: 12, thoroughS: 240,
		rule:       "seeded operation histories (1..14 ops, up to 40 in thorough) over every public method of ring.Buffer against a []byte model, checked after every operation (content via Peek-all, Buffered+Available==Cap, IsEmpty, IsFull, counts); half of the runs inject faulty readers/writers; a run is non-trivial when it both wrote and consumed and hit growth, wrap-around, or a stream fault; distinct = distinct hashes of the full operation/result log",
		components: bufComponents, assumptions: bufAssumptions,
		wantProbes: []string{"grew", "grew-above-4K", "wrapped", "filled-exactly", "writebyte-on-full", "stream-fault"},
	},
	"C10": {
		engine: "vbuf", level: "exploration", quickS: 12, thoroughS: 240,
		rule:       "seeded operation histories over elastic.RingBuffer and elastic.Buffer (Write/Writev incl. >1024 and empty segments/ReadFrom/Read/Peek/Discard/WriteTo/Reset/Release/Done) against a []byte model with static limits 1..64KiB and a ring pool seeded from the plan; non-trivial when the run wrote and consumed and used the list part, grew, wrapped or hit a stream fault; distinct = distinct operation/result log hashes",
		components: bufComponents, assumptions: bufAssumptions,
		wantProbes: []string{"list-in-use", "grew", "wrapped", "peek-multi-segment", "writev>1024", "stream-fault"},
	},
	"C11": {
		engine: "vbuf", level: "exploration", quickS: 12, thoroughS: 240,
		rule:       "seeded operation histories over linkedlist.Buffer (PushBack/PushFront with the caller's slice scribbled afterwards, Append, Pop, Read ending inside a node, Peek, PeekWithBytes, Discard, ReadFrom/WriteTo with faulty streams, Reset) against a byte + segment model; non-trivial when the run wrote and consumed and split a node or hit a stream fault; distinct = distinct operation/result log hashes",
		components: bufComponents, assumptions: bufAssumptions,
		wantProbes: []string{"partial-node", "peek-multi-segment", "stream-fault"},
	},
}

var selftests = map[string]func(tier string) int{}

// buildEngine compiles the engine's test binary against the current working
// tree of the repository. Engines that need the simulated kernel/scheduler are
// built against an instrumented scratch copy; the others import the tree
// directly through a module replace. Either way nothing is written to /repo or
// to /verif/go.mod (a scratch -modfile is used).
func buildEngine(pc *propCfg, variants []string, scratch string) ([]build, error) {
	var out []build
	for _, v := range variants {
		src := repoDir
		tags := ""
		if v != "default" {
			tags = strings.ReplaceAll(v, "+", " ")
		}
		if pc.instrumented {
			var err error
			if src, err = instrument(scratch, v); err != nil {
				return nil, err
			}
			tags = strings.TrimSpace(tags + " verif")
		}
		mod := filepath.Join(scratch, "go-"+v+".mod")
		gm, err := os.ReadFile(filepath.Join(verifDir, "go.mod"))
		if err != nil {
			return nil, err
		}
		s := strings.ReplaceAll(string(gm), "=> /repo", "=> "+src)
		if err := os.WriteFile(mod, []byte(s), 0o644); err != nil {
			return nil, err
		}
		gs, _ := os.ReadFile(filepath.Join(verifDir, "go.sum"))
		_ = os.WriteFile(filepath.Join(scratch, "go-"+v+".sum"), gs, 0o644)
		bin := filepath.Join(scratch, pc.engine+"-"+v+".test")
		args := []string{"test", "-c", "-modfile=" + mod, "-o", bin}
		if tags != "" {
			args = append(args, "-tags", tags)
		}
		args = append(args, "./engines/"+pc.engine)
		cmd := exec.Command(goBin(), args...)
		cmd.Dir = verifDir
		cmd.Env = goEnv()
		if b, err := cmd.CombinedOutput(); err != nil {
			return nil, fmt.Errorf("go %s: %v\n%s", strings.Join(args, " "), err, b)
		}
		out = append(out, build{variant: v, bin: bin})
	}
	return out, nil
}

func instrument(scratch, variant string) (string, error) {
	return "", fmt.Errorf("instrumented engines are not available yet")
}
