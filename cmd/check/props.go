package main

import (
	"fmt"
	"os"
	"os/exec"
	"path/filepath"
	"strings"
	"time"

	"verif/sim/instr"
	"verif/sim/kernelconf"
)

type propCfg struct {
	engine           string
	instrumented     bool
	level            string
	rule             string
	components       map[string][]string
	assumptions      []string
	wantProbes       []string
	quickS           int
	thoroughS        int
	variantsQ        []string
	variantsT        []string
	env              []string
	crashIsViolation bool       // the process dying inside a run is the violation (memory ownership)
	extra            []*propCfg // further engines serving the same property (run with the same budget)
}

func (p *propCfg) variants(tier string) []string {
	v := p.variantsQ
	if tier == "thorough" && len(p.variantsT) > 0 {
		v = p.variantsT
	}
	if len(v) == 0 {
		return []string{"default"}
	}
	return v
}

func (p *propCfg) budget(tier string) int {
	if tier == "thorough" {
		return p.thoroughS
	}
	return p.quickS
}

func (p *propCfg) grace(tier string) time.Duration {
	if tier == "thorough" {
		return 10 * time.Minute
	}
	return 4 * time.Minute
}

func (p *propCfg) extraEnv(string) []string { return p.env }

var bufComponents = map[string][]string{
	"real": {"pkg/buffer/ring", "pkg/buffer/elastic", "pkg/buffer/linkedlist", "pkg/pool/byteslice", "pkg/pool/ringbuffer", "pkg/math"},
	"stub": {"io.Reader / io.Writer arguments (scripted: short, (n>0,EOF), (0,EOF), (0,nil), (n,err); short-accepting and failing writers)", "ring-buffer pool state (reset and seeded from the plan before each run)", "byte-slice pool pre-poisoned with dirty memory"},
}

var bufAssumptions = []string{
	"the harness is a well-behaved caller: writers follow the io.Writer contract (short accept implies error), slices returned by Peek are examined before the next mutating call",
	"operations whose result the statement leaves open (error values, Discard(n<=0), Peek(n>Buffered) on list-based buffers) are exercised for panics only",
	"seeded sampling of operation histories, not enumeration: a clean batch is evidence, not proof",
}

var props = map[string]*propCfg{
	"C09": {
		engine: "vbuf", level: "exploration", quickS: 12, thoroughS: 240,
		rule:       "seeded operation histories (1..14 ops, up to 40 in thorough) over every public method of ring.Buffer against a []byte model, checked after every operation (content via Peek-all, Buffered+Available==Cap, IsEmpty, IsFull, counts); half of the runs inject faulty readers/writers; a run is non-trivial when it both wrote and consumed and hit growth, wrap-around, or a stream fault; distinct = distinct hashes of the full operation/result log",
		components: bufComponents, assumptions: bufAssumptions,
		wantProbes: []string{"grew", "grew-above-4K", "wrapped", "filled-exactly", "writebyte-on-full", "stream-fault"},
	},
	"C10": {
		engine: "vbuf", level: "exploration", quickS: 12, thoroughS: 240,
		rule:       "seeded operation histories over elastic.RingBuffer and elastic.Buffer (Write/Writev incl. >1024 and empty segments/ReadFrom/Read/Peek/Discard/WriteTo/Reset/Release/Done) against a []byte model with static limits 1..64KiB and a ring pool seeded from the plan; non-trivial when the run wrote and consumed and used the list part, grew, wrapped or hit a stream fault; distinct = distinct operation/result log hashes",
		components: bufComponents, assumptions: bufAssumptions,
		wantProbes: []string{"list-in-use", "grew", "wrapped", "peek-multi-segment", "writev>1024", "stream-fault"},
	},
	"C11": {
		engine: "vbuf", level: "exploration", quickS: 12, thoroughS: 240,
		rule:       "seeded operation histories over linkedlist.Buffer (PushBack/PushFront with the caller's slice scribbled afterwards, Append, Pop, Read ending inside a node, Peek, PeekWithBytes, Discard, ReadFrom/WriteTo with faulty streams, Reset) against a byte + segment model; non-trivial when the run wrote and consumed and split a node or hit a stream fault; distinct = distinct operation/result log hashes",
		components: bufComponents, assumptions: bufAssumptions,
		wantProbes: []string{"partial-node", "peek-multi-segment", "stream-fault"},
	},
}

var simComponents = map[string][]string{
	"real": {"gnet engine, event loops, acceptor, connection, load balancer, registry (package gnet)", "pkg/netpoll (Poller, default and poll_opt)", "pkg/queue", "pkg/buffer/*", "pkg/pool/byteslice", "pkg/pool/ringbuffer", "pkg/socket", "pkg/io", "golang.org/x/sync/errgroup", "context, timers (fake clock of the synctest bubble)"},
	"stub": {"Linux kernel: descriptor table, stream sockets, listeners, epoll, eventfd (sim/vsys)", "goroutine scheduling (sim/vsched: one task released at a time, seeded choice)", "sync/atomic call sites are scheduling points (sim/vatomic, real atomics underneath)", "ants worker pool (one task per submission)", "remote peers and application goroutines (scripted from the plan)", "Go map iteration order (seed-ordered)"},
}

var simAssumptions = []string{
	"the simulated kernel only produces behaviours Linux can produce (checked against the real kernel by `check selftest-kernel`); the real TCP stack is not exercised",
	"preemption is explored at simulated syscalls, instrumented atomics, channel wake-ups and callbacks, not between arbitrary plain memory accesses",
	"the harness is a well-behaved user of the API (DESIGN.md 3.0); completeness and liveness are judged only at quiescent points after faults stop",
	"seeded sampling of plans, schedules and faults: a clean batch is evidence, not proof",
}

func simProp(rule string, probes ...string) *propCfg {
	return &propCfg{engine: "vsim", instrumented: true, level: "exploration", quickS: 25, thoroughS: 420, rule: rule,
		components: simComponents, assumptions: simAssumptions, wantProbes: probes,
		variantsQ: []string{"default", "poll_opt"}, variantsT: []string{"default", "default+small", "poll_opt", "gc_opt", "poll_opt+gc_opt"}}
}

func init() {
	sig := " distinct = distinct schedule signatures (hash of the (task, site) sequence at decisions with more than one option)"
	props["C01"] = simProp("whole-engine runs: 1..10 scripted peers sending attributable byte streams in seeded segmentations (1 byte, read-buffer size +-1, data+FIN in one arrival) against handlers that consume with Read/Next/Peek/Discard/WriteTo in seeded amounts; LT/ET/ET+chunk x 1..4 loops x reactor/reuseport x tcp/tcp6/unix; content, conservation (consumed+InboundBuffered==bytes the kernel handed over) checked inside every callback, offered-before-OnClose at orderly closes, no stranded kernel input at quiescence; non-trivial = a handler left a remainder that was stitched with fresh bytes, or data and FIN arrived together;"+sig,
		"leftover-present", "partial-consumption", "data+FIN-in-one-arrival", "wire-deliveries")
	props["C02"] = simProp("whole-engine runs with write-heavy handler scripts (OnOpen reply, Write, Writev up to 1500 segments, ReadFrom+Flush, AsyncWrite(v) from callbacks and from user tasks) against peers that stall, trickle and drain, small send buffers and buffer squeeze; the peer-side stream must be a prefix of the accepted operations in effect order at all times and complete at quiescence for connections that stay open with a reading peer; OutboundBuffered checked against the kernel's count; non-trivial = at least one EAGAIN or short write;"+sig,
		"write-EAGAIN", "write-short", "writev-multi-segment", "writev>1024-segments")
	props["C03"] = simProp("whole-engine runs with 1..3 application tasks issuing AsyncWrite/AsyncWritev/Wake/Close/CloseWithCallback/Execute against idle and busy loops with every atomic of the poller/queue a scheduling point in part of the runs; at quiescence with the engine running every accepted request has run exactly once on the owning loop's task, per-user order of asynchronous writes (with bursts of 6..40 tiny requests on one connection in part of the runs, and half of the workers on the +small build flavour where the urgent queue degrades at 8 pending requests), one OnTraffic per Wake; non-trivial = requests executed and more than 5 contended decisions;"+sig,
		"async-executed", "wake-traffic", "epoll_wait-blocked")
	props["C04"] = simProp("whole-engine runs mixing every close cause (peer FIN/RST, Close action, Close()/CloseWithCallback from users, EventLoop.Close, write failure, shutdown) and late requests, with canaries re-opening freed descriptor numbers; per-connection state machine (OnOpen once before OnTraffic, OnClose once iff opened, nothing after), OnClose error nil iff a local cause had been requested (for connected UDP sockets of a client too: remote port gone, ICMP error pending, EPOLLERR), CountConnections within the window of opened-closed; handlers also use the connection inside OnClose (parting write, Close/EventLoop.Close again); non-trivial = at least one connection closed;"+sig,
		"fd-number-reused", "canary-grabbed", "close-sent-RST")
	props["C05"] = simProp("same runs as C03/C04 with the executing task recorded for every callback, runnable and kernel call: one task per connection for life, no overlapping callbacks on one loop (nested OnClose from the handler's own call is legal), every read/write/epoll_ctl/close on a connection's descriptor issued by its loop's task, no panic from any documented concurrency-safe call made at arbitrary moments (SafeContext/SetSafeContext/Fd from application goroutines and from the loop at once); a third of the workers run the race flavour (variants +race): the same deterministic runs in a binary carrying the Go race detector, which is shown only the synchronisation the framework performs itself (the scheduler's hand-offs and the harness's own state are hidden from it through a build overlay of two runtime files, application-side hand-overs of Engine and Conn are the only edges the harness adds), so that two conflicting accesses made by gnet code on two tasks are reported whenever gnet's own atomics, locks, channels, goroutine creation and pool hand-overs leave them unordered, whichever order the schedule ran them in; a report is a violation (key data-race/<function>+<function>) with the plan as replay file, shrunk by re-executing candidates in fresh processes;"+sig,
		"async-executed", "safe-context-calls")
	props["C06"] = simProp("whole-engine runs with the shutdown source (Engine.Stop, gnet.Stop, Shutdown action from OnBoot/OnOpen/OnTraffic/OnClose/OnTick) and moment (any scheduler step: mid-accept, mid-read, queued async tasks, concurrent second Stop) drawn from the seed; Run returns nil within the drain bound (hang = quiescent without return), every opened connection got OnClose before, OnShutdown exactly once, no callback afterwards during a post-mortem phase in which timers keep firing; a task that repeats one EAGAIN-answered call 500 times without returning to the poller is a busy retry: the shutdown is requested and must still complete (C06/spin otherwise); in one plan in thirty 3-5 application goroutines keep issuing AsyncWrite on one connection until Run returns, and Run must return within 25000 scheduler decisions of the stop request (C06/hang-under-load; the +small flavour makes the queue thresholds reachable); in one plan in fifteen an older engine runs under the same address (SO_REUSEPORT), is stopped through its own handle once the engine under test has registered, and the latter is then stopped through the package-level Stop; OnTick is called again during the workload (simulated time passes at seeded steps) and may ask for the shutdown at its n-th call; non-trivial = connections were open;"+sig,
		"accepted")
	props["C18"] = simProp("per seeded scenario (3-4 connections with echo-like checked traffic in LT or ET, reactor or reuseport, tcp or unix, plus a late probe connection): one fault-free run recording the syscall trace by (site, descriptor class, call index), then one run per single fault (read/write/writev/epoll_ctl add,mod,del/close on stream descriptors, epoll_wait, accept4; call index 1..6 (12 thorough); errno from the realistic set of the site; stateful resets mark the socket too) on the same seed, i.e. the same schedule prefix; every fourth seed is a random plan with 1-2 random faults instead; oracle: no panic, C01/C02/C04/C05/C06/C07 monitors hold (victims exempt from completeness only), victim closed with an error and its descriptor released, probe served, retryable conditions (EAGAIN LT-only, EINTR, ECONNABORTED) leave everything as fault-free; evaluations counts every executed run; non-trivial/distinct = scenario enumerations (hash of all sub-run logs) and random-fault runs in which a fault fired with at least two connections open",
		"faults-enumerated", "scenarios-enumerated-completely")
	props["C18"].level = "fault_enumeration"
	props["C18"].quickS, props["C18"].thoroughS = 30, 600
	props["C19"] = simProp("whole-engine runs in which 1..3 application tasks issue Validate, CountConnections, Dup, DupListener (right and wrong address), Register (address: the framework dials; connection: enroll; neither), Stop with live, already-cancelled and expiring contexts, at arbitrary moments: on the zero Engine value before boot, while the engine is being assembled, running, during a shutdown started elsewhere (any source, any step) and after Run returned; reference model {never-started, booting, running, stopping, stopped}: exact answers (errors by identity, -1 counts) outside the stopping window, inside it a call must return and must not succeed with a meaningless result; Stop returns nil only after OnShutdown, every OnClose and the release of listener/epoll/eventfd descriptors, returns ctx.Err() when the context ends first while the shutdown still completes (C06 monitor); every accepted Register/Enroll delivers exactly one result, a connection that has had its OnOpen or an error; in a quarter of the runs with Register/Enroll calls the duplication (fcntl F_DUPFD -> EMFILE) or the poller registration (epoll_ctl ADD -> ENOMEM) of one of them fails at a seeded call index; a Stop that returned the error of an ended context must still be followed by a complete shutdown; descriptors handed out by Dup stay open; every sixth plan is an engine whose listeners are all UDP; the EventLoop of a known connection is called without a target (Register(nil address), Enroll(nil), Execute(nil), Schedule): its own refusal errors while the engine runs, the in-shutdown error afterwards; non-trivial = at least one control call;"+sig,
		"control-calls", "control-calls-in-window", "register-calls", "register-succeeded", "dup-handed-out")
	props["C14"] = simProp("whole-engine runs with many short-lived connections (3..40, closes in every order, descriptor numbers re-registered immediately, canaries): inside every callback, on the loop's own task, a read-only export of that loop's registry (count, iteration, lookup of every descriptor number the run has used) must equal the harness's set of live connections of that loop; default and gc_opt (compacting matrix) builds; plus the registry driven alone through seeded histories (add/remove first,middle,last/lookup/iterate/full iterate-and-remove drain/re-registration; a few populations beyond one 65536-entry row in the thorough tier) against a plain map; non-trivial = snapshots taken and at least one removal;"+sig,
		"registry-snapshots", "fd-number-reused")
	props["C14"].variantsQ = []string{"default", "gc_opt"}
	// C05: a third of the workers run the race-detector flavour (sim/vsched/race_on.go)
	props["C05"].components = map[string][]string{
		"real": append(append([]string{}, simComponents["real"]...), "+race variants: the Go race detector (runtime/race, ThreadSanitizer) as shipped with the toolchain, observing the real accesses, atomics, locks, channels and goroutine creation of the gnet packages"),
		"stub": append(append([]string{}, simComponents["stub"]...), "+race variants: two files of package runtime replaced through a build overlay (race_amd64.s: a goroutine with a non-zero ignore depth reports no memory access; race.go: RaceIgnoreSwap), so that harness and scheduler are invisible to the detector", "+race variants: sync.Pool stand-in gives each pooled object its own release/acquire pair; application-side hand-overs of Engine and Conn modelled by the harness as one release/acquire each"),
	}
	props["C05"].assumptions = append(append([]string{}, simAssumptions...),
		"+race variants: a report counts only when both accesses are attributed (innermost frame outside runtime and standard library) to gnet packages; a pair of accesses is reported when unordered, the racy interleaving itself need not occur; code that no run reaches is not judged",
		"+race variants: Engine.Register under the default Round-Robin policy is documented as racy by gnet; plans that call it (or dial through one Client from several goroutines) use least-connections there")
	props["C05"].variantsQ = []string{"default", "poll_opt", "default+race"}
	props["C05"].variantsT = []string{"default", "default+small", "poll_opt", "gc_opt", "default+race", "default+small+race", "poll_opt+race", "gc_opt+race"}
	// build flavour +small (3 requests per loop round, urgent-queue threshold 8, 4 iovecs per
	// writev, 2-event lists): the thresholds of the poller and of the write path are reachable
	for _, id := range []string{"C02", "C03", "C06"} {
		props[id].variantsQ = []string{"default", "default+small", "poll_opt"}
		props[id].variantsT = []string{"default", "default+small", "poll_opt", "poll_opt+small", "gc_opt", "poll_opt+gc_opt"}
	}
	props["C14"].extra = []*propCfg{{engine: "vreg", instrumented: true, variantsQ: []string{"default", "gc_opt"}, variantsT: []string{"default", "gc_opt"}}}
	props["C15"] = simProp("whole-engine runs in reactor mode with 1..8 loops (16/64/256 in a few thorough runs), 3..40 connections opening and closing so that the vector of per-loop counts keeps changing, peers re-using source addresses (IPv4, IPv6 with zones, unix = empty name); round-robin: the i-th and (i+N)-th accepted connections share a loop and N consecutive ones are pairwise distinct; least-connections (connects serialised, atomics not scheduling points so that the balancer's scan is atomic with accept4): the chosen loop's live count at accept time is minimal; source-address hash: equal RemoteAddr strings are served by one loop, across accepted connections and connections handed over through Register/Enroll whose target address equals an accepted peer's; never more loops than configured; the loop is identified by the task that runs the callbacks (C05 ties descriptor I/O to it); non-trivial = an accept sequence or a least-connections decision was checked with at least two connections;"+sig,
		"lb-sequences-checked", "lc-checks")
	props["C17"] = simProp("whole-engine runs in which the simulated kernel fabricates peer addresses for accept4 (IPv4, IPv6 loopback, link-local IPv6 with zone ids of existing and non-existing interfaces, unix) and listeners bound to zoned addresses; at every callback of every connection RemoteAddr must equal the peer address as the kernel knows it (IP, port, zone name) and LocalAddr the listener's bound address, for the whole life of the connection while other connections open and close and recycle zone strings through the pool; in the UDP runs SendTo with addresses of invalid IP length or unsupported type must be refused; non-trivial = at least two address checks;"+sig,
		"address-checks")
	props["C08"] = simProp("whole-engine runs on a udp listener (reuseport group of 1..4 loops, IPv4 or IPv6 incl. zoned link-local sources): 1..6 simulated senders inject 1..14 datagrams of 0..65507 bytes (bias 0/1, read-buffer size +-1, maximum; one plan in twelve is a flood of 70..220 small datagrams queued at once) in seeded interleavings with the loops; the handler consumes none/part/all with Read/Next/Discard and replies with Write, SendTo(other sender), SendTo(an address no conversion exists for: must be refused) and AsyncWrite; the simulated kernel knows which datagram each recvfrom returned, so the OnTraffic that follows must show exactly that payload (InboundBuffered, Peek(-1), truncated to the read buffer), that source as RemoteAddr, once per datagram, with nothing carried over; every sendto must be exactly one expected reply with exact bytes to the right address; non-trivial = at least two datagrams handled;"+sig,
		"udp-datagrams-handled", "udp-partial-consumption", "udp-replies-checked", "udp-truncated")
	props["C08"].variantsQ = []string{"default", "poll_opt"}
	props["C07"] = simProp("same runs as C04/C06; oracle = the simulated kernel's ledger: any framework call on a closed or foreign descriptor number is a violation at that step (canaries grab freed numbers at once), every framework-created descriptor closed exactly once by the time Run returns, unix-socket file removed; in one sixth of the runs one descriptor-creating or -configuring call fails (socket, bind, listen, epoll_create1, eventfd, epoll_ctl ADD of an eventfd or listener, setsockopt, fcntl F_DUPFD; EMFILE/ENOMEM/EADDRINUSE/ENOPROTOOPT at a seeded call index; keep-alive option in a quarter of the runs) while the engine or client starts or while Dup/Register/Enroll duplicate a descriptor: Run/Client.Start must return with everything created so far closed and nothing still running may touch a closed number; leaks are classified by kind and origin (accepted / duplicated, never opened / left behind by a call that answered); non-trivial = a descriptor number was re-used or a connection closed;"+sig,
		"fd-number-reused", "canary-grabbed")
}

func init() {
	sig := " distinct = distinct schedule signatures"
	props["C13"] = &propCfg{engine: "vqueue", instrumented: true, level: "exploration", quickS: 15, thoroughS: 300,
		rule:        "2..4 tasks x 1..5 operations (Enqueue of unique tasks, Dequeue, Length, IsEmpty) on the real instrumented pkg/queue with a scheduling point before every atomic load/CAS/add under random, PCT and starvation schedules; invoke/return stamped with a global event counter; porcupine checks each history against a sequential FIFO model; Length/IsEmpty checked when no operation overlaps; drain => each task exactly once; non-trivial = at least 3 operations and 3 contended decisions;" + sig,
		components:  map[string][]string{"real": {"pkg/queue (lock-free queue, task pool)"}, "stub": {"goroutine scheduling (sim/vsched)", "sync/atomic call sites are scheduling points (sim/vatomic)", "sync.Pool (deterministic LIFO)"}},
		assumptions: []string{"preemption only between atomic operations (sequentially consistent atomics); histories of at most 18 operations", "porcupine Unknown (timeout) is counted inconclusive, never reported"},
		variantsQ:   []string{"default"}, variantsT: []string{"default"}}
	props["C12"] = &propCfg{engine: "vpool", instrumented: true, level: "exploration", quickS: 25, thoroughS: 300,
		rule:        "1..4 tasks under the seeded scheduler interleave Get(size) (0, 1, 2^k-1/2^k/2^k+1 up to 4 MiB, random) and Put of slices in every shape (as obtained, tail b[k:], head b[:k], b[:k:k], b[k:k], foreign make()d with odd capacity, zero capacity) on the byte-slice pool and Get/Write/Put on the ring-buffer pool; oracle = ledger of outstanding address ranges (all memory kept alive so addresses are never recycled): len == size, cap >= size, no overlap with any outstanding range, never beyond the capacity of a slice that was put back, canary patterns over the full capacity verified when the holder returns it, rings come back empty and are never held twice; non-trivial = at least two Gets and one Put. Second stage (engine vsim, whole engine on the simulated kernel): the slice a handler got from Next/Peek is re-read after every write operation of the same callback (writes draw their buffers from the same pools) and must be unchanged until the next read-type call; buffers passed to Write/Writev/AsyncWrite/AsyncWritev are overwritten by the application as soon as the operation has taken effect and the peer must still receive the original bytes; non-trivial there = at least one such re-check;" + sig,
		components:  map[string][]string{"real": {"pkg/pool/byteslice", "pkg/pool/ringbuffer", "pkg/buffer/ring", "second stage: the whole engine as for C01/C02 (connection buffers, elastic buffers, event loops)"}, "stub": {"sync.Pool (deterministic LIFO, so that what Get returns is a function of the history, not of P-local caches and GC timing)", "goroutine scheduling (sim/vsched)", "second stage: simulated kernel, peers and application goroutines as for C01/C02"}},
		assumptions: []string{"sizes above 4 MiB (and the > MaxInt32 branch) are not exercised", "the system-level consequence is checked through the stream content oracles (C01/C02 keys are not repeated here) plus the held-slice re-check; memory that is corrupted without any observable read is not seen"},
		wantProbes:  []string{"gets", "puts", "put-resliced", "put-foreign", "ring-gets", "held-slice-rechecks"},
		variantsQ:   []string{"default"}, variantsT: []string{"default"}, crashIsViolation: true}
	props["C12"].extra = []*propCfg{{engine: "vsim", instrumented: true, variantsQ: []string{"default"}, variantsT: []string{"default", "poll_opt"}}}
	// C03 has two engines: the whole-engine level (vsim) registered above and
	// the poller level, run as a second stage by the same check.
	props["C03"].extra = []*propCfg{{engine: "vpoll", instrumented: true,
		variantsQ: []string{"default+small", "poll_opt+small"}, variantsT: []string{"default", "default+small", "poll_opt", "poll_opt+small"}}}
}

var selftests = map[string]func(tier string) int{
	// the simulated kernel against the real one: disagreement = the stub is
	// not trustworthy = harness trouble (exit 2), never a violation
	// determinism across processes and GOMAXPROCS values: the same run seed
	// must give the same event-log hash everywhere
	"selftest-determinism": func(tier string) int {
		scratch, err := os.MkdirTemp("", "verif-det-")
		if err != nil {
			fatal2("mktemp: %v", err)
		}
		defer os.RemoveAll(scratch)
		bad, total := 0, 0
		for _, id := range []string{"C04", "C02", "C19", "C08", "C13", "C12"} {
			pc := props[id]
			bs, berr := buildEngine(pc, []string{"default"}, scratch)
			if berr != nil {
				fatal2("build failed:\n%v", berr)
			}
			nseeds := 30
			if tier == "thorough" {
				nseeds = 120
			}
			for i := 0; i < nseeds; i++ {
				seed := fmt.Sprint(1000003*uint64(i+1) + 17)
				var ref string
				for _, procs := range []string{"1", "4", "16"} {
					cmd := exec.Command(bs[0].bin, "-test.run", "^TestEngine$", "-test.count", "1")
					cmd.Env = append(os.Environ(), "VERIF_MODE=one", "VERIF_PROP="+id, "VERIF_RUNSEED="+seed, "GOMAXPROCS="+procs)
					out, _ := cmd.CombinedOutput()
					h := ""
					for _, l := range strings.Split(string(out), "\n") {
						if j := strings.Index(l, "\"loghash\":\""); j >= 0 {
							h = l[j+11:]
							if k := strings.IndexByte(h, '"'); k >= 0 {
								h = h[:k]
							}
							break
						}
					}
					total++
					if h == "" {
						fmt.Fprintf(os.Stderr, "NONDETERMINISM? %s seed %s GOMAXPROCS=%s produced no log hash:\n%s\n", id, seed, procs, tail(string(out), 600))
						bad++
					} else if ref == "" {
						ref = h
					} else if h != ref {
						fmt.Fprintf(os.Stderr, "NONDETERMINISM: %s seed %s: log hash %s with GOMAXPROCS=%s, %s with GOMAXPROCS=1\n", id, seed, h, procs, ref)
						bad++
					}
				}
			}
			fmt.Printf("selftest-determinism: %s done\n", id)
		}
		fmt.Printf("selftest-determinism: %d executions in separate processes, %d disagreements\n", total, bad)
		if bad > 0 {
			return 2
		}
		return 0
	},
	"selftest-kernel": func(tier string) int {
		total, bad := kernelconf.Run(os.Getenv("VERIF_VERBOSE") != "")
		fmt.Printf("selftest-kernel: %d scripts, %d disagreements between linux and vsys\n", total, bad)
		if bad > 0 {
			return 2
		}
		return 0
	},
}

// buildEngine compiles the engine's test binary against the current working
// tree of the repository. Engines that need the simulated kernel/scheduler are
// built against an instrumented scratch copy; the others import the tree
// directly through a module replace. Either way nothing is written to /repo or
// to /verif/go.mod (a scratch -modfile is used).
func buildEngine(pc *propCfg, variants []string, scratch string) ([]build, error) {
	var out []build
	for _, v := range variants {
		src := repoDir
		tags := ""
		if v != "default" {
			tags = strings.TrimSpace(strings.ReplaceAll(strings.ReplaceAll(strings.ReplaceAll(strings.ReplaceAll(" "+strings.ReplaceAll(v, "+", " ")+" ", " small ", " "), " race ", " "), " default ", " "), "  ", " "))
		}
		race := isRace(v)
		if pc.instrumented {
			var err error
			if src, err = instrument(scratch, v); err != nil {
				return nil, err
			}
			tags = strings.TrimSpace(tags + " verif")
		}
		mod := filepath.Join(scratch, "go-"+pc.engine+"-"+v+".mod")
		gm, err := os.ReadFile(filepath.Join(verifDir, "go.mod"))
		if err != nil {
			return nil, err
		}
		s := strings.ReplaceAll(string(gm), "=> /repo", "=> "+src)
		if err := os.WriteFile(mod, []byte(s), 0o644); err != nil {
			return nil, err
		}
		gs, _ := os.ReadFile(filepath.Join(verifDir, "go.sum"))
		_ = os.WriteFile(filepath.Join(scratch, "go-"+pc.engine+"-"+v+".sum"), gs, 0o644)
		bin := filepath.Join(scratch, pc.engine+"-"+v+".test")
		args := []string{"test", "-c", "-modfile=" + mod, "-o", bin}
		env := goEnv()
		if race {
			// the race-detector flavour: see sim/vsched/race_on.go and sim/instr/raceoverlay.go
			ov, oerr := raceOverlay(scratch)
			if oerr != nil {
				return nil, fmt.Errorf("race flavour: %v", oerr)
			}
			// (-race switches on checkptr, which rejects the packed epoll_event access of
			// the poll_opt poller itself: a tool limitation, not a property)
			args = append(args, "-race", "-overlay", ov, "-gcflags=all=-d=checkptr=0")
			env = append(env, "CGO_ENABLED=1")
		}
		if tags != "" {
			args = append(args, "-tags", tags)
		}
		args = append(args, "./engines/"+pc.engine)
		cmd := exec.Command(goBin(), args...)
		cmd.Dir = verifDir
		cmd.Env = env
		if b, err := cmd.CombinedOutput(); err != nil {
			// a tree that no longer compiles only because of an injected
			// export file (renamed variable) is rebuilt without the exports
			if pc.instrumented && strings.Contains(string(b), "zz_verif_export") {
				_ = filepath.Walk(src, func(p string, info os.FileInfo, werr error) error {
					if werr == nil && !info.IsDir() && strings.HasPrefix(info.Name(), "zz_verif_export") {
						_ = os.Remove(p)
					}
					return nil
				})
				cmd2 := exec.Command(goBin(), args...)
				cmd2.Dir, cmd2.Env = verifDir, env
				if b2, err2 := cmd2.CombinedOutput(); err2 != nil {
					return nil, fmt.Errorf("go %s: %v\n%s", strings.Join(args, " "), err2, b2)
				}
				fmt.Fprintln(os.Stderr, "note: export files did not compile against this tree; built without them (global resets degraded)")
			} else {
				return nil, fmt.Errorf("go %s: %v\n%s", strings.Join(args, " "), err, b)
			}
		}
		out = append(out, build{engine: pc.engine, variant: v, bin: bin})
	}
	return out, nil
}

// instrument copies the working tree of the repository into the scratch
// directory and rewrites it for the given variant ("default", "poll_opt",
// "gc_opt", "poll_opt+gc_opt", each optionally "+small" for the small-knob
// flavour).
func instrument(scratch, variant string) (string, error) {
	dst := filepath.Join(scratch, "src-"+variant)
	if st, err := os.Stat(dst); err == nil && st.IsDir() {
		return dst, nil // already instrumented for another engine of this check
	}
	var tags []string
	small, race := false, false
	for _, t := range strings.Split(variant, "+") {
		switch t {
		case "default", "":
		case "small":
			small = true
		case "race":
			race = true
		default:
			tags = append(tags, t)
		}
	}
	rep, err := instr.Instrument(repoDir, dst, instr.Options{Tags: tags, SmallKnobs: small, Race: race, Inject: injectFiles()})
	if err != nil {
		return "", fmt.Errorf("instrumenter: %v", err)
	}
	if len(rep.Unmodelled) > 0 {
		// not a verdict about the property: the harness cannot run this tree faithfully
		return "", fmt.Errorf("the tree makes system calls the simulated kernel does not model (they would reach the real kernel with simulated descriptor numbers):\n  %s", strings.Join(rep.Unmodelled, "\n  "))
	}
	if os.Getenv("VERIF_VERBOSE") != "" {
		fmt.Fprintf(os.Stderr, "instrumented %d files for %s: %v skipped=%v\n", rep.Files, variant, rep.Rewrites, rep.Skipped)
	}
	return dst, nil
}

func injectFiles() map[string]string {
	out := map[string]string{}
	root := filepath.Join(verifDir, "inject")
	_ = filepath.Walk(root, func(p string, info os.FileInfo, err error) error {
		if err != nil || info.IsDir() || !strings.HasSuffix(p, ".go.txt") {
			return nil
		}
		rel, _ := filepath.Rel(root, p)
		b, rerr := os.ReadFile(p)
		if rerr == nil {
			out[strings.TrimSuffix(rel, ".txt")] = string(b)
		}
		return nil
	})
	return out
}

// isRace: the variant is built with the race detector ("+race" flavour).
func isRace(variant string) bool {
	for _, t := range strings.Split(variant, "+") {
		if t == "race" {
			return true
		}
	}
	return false
}

// raceOverlay writes the build overlay of the race flavour (two patched files
// of package runtime, see sim/instr/raceoverlay.go) into the scratch directory.
func raceOverlay(scratch string) (string, error) {
	dir := filepath.Join(scratch, "race-runtime")
	ov := filepath.Join(dir, "overlay.json")
	if _, err := os.Stat(ov); err == nil {
		return ov, nil
	}
	out, err := exec.Command(goBin(), "env", "GOROOT").Output()
	if err != nil {
		return "", err
	}
	return instr.RaceRuntimeOverlay(strings.TrimSpace(string(out)), dir)
}

// raceEnv: where the race detector of a worker process writes its reports.
func raceEnv(scratch, variant string, n int) []string {
	if !isRace(variant) {
		return nil
	}
	dir := filepath.Join(scratch, fmt.Sprintf("racelog-%d", n))
	_ = os.MkdirAll(dir, 0o755)
	return []string{"GORACE=log_path=" + filepath.Join(dir, "r") + " halt_on_error=0"}
}
