module verif

go 1.26

require github.com/panjf2000/gnet/v2 v2.0.0

replace github.com/panjf2000/gnet/v2 => /repo
