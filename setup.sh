#!/bin/sh
# Offline setup: build the driver and warm the build cache for every engine.
cd "$(dirname "$0")" || exit 2
export GOFLAGS=-mod=mod GOPROXY=off GOSUMDB=off GOTOOLCHAIN=local CGO_ENABLED=0
GO=/opt/veriftools/go1.26.8/bin/go
[ -x "$GO" ] || GO=go1.26.8
mkdir -p bin evidence replays
"$GO" build -o bin/check ./cmd/check || exit 2
T=$(mktemp -d) || exit 2
cp go.mod "$T/go.mod"; cp go.sum "$T/go.sum"
for e in engines/*/; do
  "$GO" test -c -modfile="$T/go.mod" -o "$T/warm.test" "./$e" >/dev/null 2>&1 || true
done
rm -rf "$T"
# hold the simulated kernel to the real one (exit 2 = the stub is not trustworthy)
bin/check selftest-kernel || exit 2
echo "setup done"
