package vpoll

import (
	"encoding/json"
	"testing"

	"verif/sim/runner"
)

type eng struct{ t *testing.T }

func (e eng) Generate(seed uint64, prop, tier string) any { return Generate(seed, prop, tier) }
func (e eng) Execute(plan any, prop string) runner.Outcome {
	return Execute(e.t, plan.(*Plan), prop)
}
func (e eng) Shrink(plan any) []any { return Shrink(plan.(*Plan)) }
func (e eng) Decode(raw json.RawMessage) (any, error) {
	var p Plan
	err := json.Unmarshal(raw, &p)
	return &p, err
}

func TestEngine(t *testing.T) {
	if err := runner.Main("vpoll", eng{t}); err != nil {
		t.Fatal(err)
	}
}
