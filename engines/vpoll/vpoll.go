// Package vpoll checks the poller-level half of C03: the real, instrumented
// netpoll.Poller and pkg/queue run on the simulated kernel; one consumer task
// sits in Polling, 1..4 producer tasks call Trigger with both priorities, and
// every atomic, queue and eventfd/epoll operation is a scheduling point. At
// quiescence every task whose Trigger returned nil must have run exactly once
// (a consumer parked in epoll_wait with a non-empty queue is the lost wake-up).
package vpoll

import (
	"encoding/json"
	"fmt"
	"testing"
	"testing/synctest"

	errorx "github.com/panjf2000/gnet/v2/pkg/errors"
	"github.com/panjf2000/gnet/v2/pkg/netpoll"
	"github.com/panjf2000/gnet/v2/pkg/queue"

	"verif/sim/runner"
	"verif/sim/vsched"
	"verif/sim/vsys"
)

type Plan struct {
	Seed      uint64   `json:"seed"`
	Strategy  string   `json:"strategy"`
	Quantum   int      `json:"quantum"`
	PCT       int      `json:"pct,omitempty"`
	Producers [][]int  `json:"producers"` // per producer: priorities of its Trigger calls (0 high, 1 low, 2 = pause)
	EfdHigh   bool     `json:"efdhigh,omitempty"`
	Busy      int      `json:"busy,omitempty"` // external wake-ups of a registered dummy eventfd
	OffSites  []string `json:"off,omitempty"`
}

func Generate(seed uint64, prop, tier string) *Plan {
	r := runner.NewRand(seed)
	p := &Plan{Seed: r.U64()}
	p.Strategy = []string{"random", "random", "pct", "starve"}[r.Intn(4)]
	p.Quantum = r.Pick(1, 1, 1, 2, 5)
	p.PCT = r.Range(1, 4)
	p.EfdHigh = r.Chance(1, 8)
	np := r.Range(1, 4)
	for i := 0; i < np; i++ {
		var ops []int
		n := r.Range(1, 6)
		if r.Chance(1, 10) {
			n = r.Range(8, 30) // overflow of the (small-knob) thresholds
		}
		for j := 0; j < n; j++ {
			switch x := r.Intn(10); {
			case x < 4:
				ops = append(ops, 0)
			case x < 8:
				ops = append(ops, 1)
			default:
				ops = append(ops, 2)
			}
		}
		p.Producers = append(p.Producers, ops)
	}
	if r.Chance(1, 3) {
		p.Busy = r.Range(1, 5)
	}
	return p
}

func Shrink(p *Plan) []any {
	var out []any
	clone := func() *Plan {
		b, _ := json.Marshal(p)
		var q Plan
		_ = json.Unmarshal(b, &q)
		return &q
	}
	if len(p.Producers) > 1 {
		for i := range p.Producers {
			q := clone()
			q.Producers = append(q.Producers[:i], q.Producers[i+1:]...)
			out = append(out, q)
		}
	}
	for i, ops := range p.Producers {
		if len(ops) > 1 {
			q := clone()
			q.Producers[i] = ops[:len(ops)/2]
			out = append(out, q)
			for j := range ops {
				q := clone()
				q.Producers[i] = append(append([]int{}, ops[:j]...), ops[j+1:]...)
				out = append(out, q)
			}
		}
	}
	if p.Busy > 0 {
		q := clone()
		q.Busy = 0
		out = append(out, q)
	}
	if p.EfdHigh {
		q := clone()
		q.EfdHigh = false
		out = append(out, q)
	}
	if p.Strategy != "random" || p.Quantum != 1 {
		q := clone()
		q.Strategy, q.Quantum = "random", 1
		out = append(out, q)
	}
	return out
}

type rec struct {
	id, producer, seq, prio int
	accepted                bool
	runs                    int
	order                   int
}

func Execute(t *testing.T, p *Plan, prop string) (out runner.Outcome) {
	var h runner.Hasher
	var viol *runner.Violation
	fail := func(key, format string, a ...any) {
		if viol == nil {
			viol = &runner.Violation{Key: "C03/poller/" + key, Msg: fmt.Sprintf(format, a...)}
		}
	}
	probes := map[string]int{}
	func() {
		defer func() {
			if r := recover(); r != nil {
				fail("harness", "bubble: %v", r)
			}
		}()
		synctest.Test(t, func(t *testing.T) {
			vsched.ResetGlobals()
			s := vsched.New(vsched.Config{Seed: p.Seed, Strategy: p.Strategy, Quantum: p.Quantum, PCTDepth: p.PCT, MaxSteps: 100000, OffSites: p.OffSites})
			defer s.Close()
			k := vsys.New(p.Seed, s.Step, vsched.CurrentName)
			defer k.Deactivate()
			if p.EfdHigh {
				k.EfdStart = ^uint64(0) - 3
			}
			k.Trace = func(l string) { h.Add(l) }
			var recs []*rec
			execOrder := 0
			var poller *netpoll.Poller
			pollErr := error(nil)
			pollDone := false
			producersDone := 0
			consumerTask := ""
			s.OnPanic = func(task string, v any, stack []byte) {
				fail("panic", "task %s panicked: %v\n%s", task, v, stack)
				s.Stop("panic")
			}
			phase := 0
			busyLeft := p.Busy
			s.Events = func() []vsched.Event {
				if busyLeft > 0 && poller != nil && phase == 0 {
					return []vsched.Event{{Name: "busy", Run: func() { busyLeft--; k.PokeAllEpolls() }}}
				}
				return nil
			}
			s.OnQuiescent = func(idle int) int {
				switch phase {
				case 0:
					if producersDone < len(p.Producers) {
						fail("harness", "quiescent with producers not finished: %v", s.Alive())
						return vsched.QStop
					}
					// the lost wake-up oracle
					for _, r := range recs {
						if r.accepted && r.runs != 1 {
							st, site, _ := s.TaskState("consumer")
							fail("lost-task", "task %d (producer %d, #%d, priority %d) was accepted by Trigger but ran %d times; the consumer is %s at %s and nothing else is runnable", r.id, r.producer, r.seq, r.prio, r.runs, st, site)
							break
						}
					}
					phase = 1
					s.Go("stopper", func() {
						_ = poller.Trigger(queue.HighPriority, func(any) error { return errorx.ErrEngineShutdown }, nil)
					})
					return vsched.QAgain
				case 1:
					if !pollDone {
						fail("no-exit", "the shutdown task was triggered but Polling did not return: %v", s.Alive())
					}
					return vsched.QStop
				}
				return vsched.QStop
			}
			s.Go("consumer", func() {
				var err error
				poller, err = netpoll.OpenPoller()
				if err != nil {
					fail("harness", "OpenPoller: %v", err)
					return
				}
				consumerTask = vsched.CurrentName()
				pollErr = polling(poller)
				pollDone = true
				_ = poller.Close()
			})
			for pi, ops := range p.Producers {
				pi, ops := pi, ops
				s.Go(fmt.Sprintf("prod%d", pi), func() {
					defer func() { producersDone++ }()
					vsched.Block("wait-poller", func() bool { return poller != nil })
					seq := 0
					for _, prio := range ops {
						if prio == 2 {
							vsched.Yield("pause")
							continue
						}
						seq++
						r := &rec{id: len(recs), producer: pi, seq: seq, prio: prio}
						recs = append(recs, r)
						err := poller.Trigger(queue.EventPriority(prio), func(param any) error {
							rr := param.(*rec)
							rr.runs++
							execOrder++
							rr.order = execOrder
							probes["tasks-executed"]++
							if vsched.CurrentName() != consumerTask {
								fail("wrong-task", "task %d ran on %s, not on the polling task", rr.id, vsched.CurrentName())
							}
							if rr.runs > 1 {
								fail("ran-twice", "task %d ran %d times", rr.id, rr.runs)
							}
							return nil
						}, r)
						r.accepted = err == nil
						h.Add(fmt.Sprintf("prod%d trigger #%d prio=%d err=%v", pi, seq, prio, err != nil))
					}
				})
			}
			s.Loop()
			// order of urgent tasks per producer
			last := map[int]int{}
			lastSeq := map[int]int{}
			for _, r := range recs {
				if r.prio != 0 || r.runs != 1 {
					continue
				}
				if r.order < last[r.producer] {
					fail("order", "producer %d: high-priority task #%d ran before #%d which was issued earlier", r.producer, r.seq, lastSeq[r.producer])
				}
				last[r.producer], lastSeq[r.producer] = r.order, r.seq
			}
			if pollDone && pollErr != nil && pollErr != errorx.ErrEngineShutdown {
				fail("poll-error", "Polling returned %v", pollErr)
			}
			for _, ev := range k.Ledger {
				fail("descriptor/"+ev.Kind+"/"+ev.Call, "%s", ev.Msg)
				break
			}
			for kname, v := range k.Stats {
				probes[kname] += v
			}
			out.Steps, out.Signature = s.Step(), s.Signature()
			out.NonTrivial = s.Contended >= 5 && probes["tasks-executed"] > 0
			out.SimNanos = s.SimNanos()
			s.Teardown()
		})
	}()
	out.Violation = viol
	out.LogHash = h.Sum()
	out.Probes = probes
	return
}
