//go:build poll_opt

package vpoll

import "github.com/panjf2000/gnet/v2/pkg/netpoll"

func polling(p *netpoll.Poller) error { return p.Polling() }
