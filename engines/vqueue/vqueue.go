// Package vqueue checks that the lock-free task queue is a linearizable FIFO
// (C13): 2..4 tasks run short operation scripts on the real, instrumented
// pkg/queue with a scheduling point before every atomic operation; the
// recorded history is checked with porcupine against a sequential queue model.
package vqueue

import (
	"encoding/json"
	"fmt"
	"testing"
	"testing/synctest"
	"time"

	"github.com/anishathalye/porcupine"
	"github.com/panjf2000/gnet/v2/pkg/queue"

	"verif/sim/runner"
	"verif/sim/vsched"
)

type Plan struct {
	Seed     uint64     `json:"seed"`
	Strategy string     `json:"strategy"`
	Quantum  int        `json:"quantum"`
	PCT      int        `json:"pct,omitempty"`
	Tasks    [][]string `json:"tasks"` // per task: ops "enq" | "deq" | "len" | "empty"
	// Stall > 0: task 0 is parked after that many of its scheduling points (i.e.
	// between two atomic steps of its first operation) while task 1 runs its whole
	// (long) script, then resumes: node recycling / ABA needs an operation to sleep
	// through many others. Such histories are too long for the linearizability
	// checker; they are judged by exactly-once, no invention, per-producer order
	// and the quiescent length.
	Stall int `json:"stall,omitempty"`
	// Prefill: that many tasks are enqueued before the scripted tasks start (a
	// non-empty queue under several concurrent consumers: head contention).
	Prefill int `json:"prefill,omitempty"`
	// Bulk: that many tasks are enqueued one after the other before anything else
	// (thousands: a long queue at rest); Length and IsEmpty must tell the truth
	// about it, then two producers add a few more and everything is drained in
	// order. Too long for the linearizability checker, judged like Stall plans.
	Bulk int `json:"bulk,omitempty"`
}

func Generate(seed uint64, prop, tier string) *Plan {
	r := runner.NewRand(seed)
	p := &Plan{Seed: r.U64()}
	p.Strategy = []string{"random", "random", "pct", "starve"}[r.Intn(4)]
	p.Quantum = r.Pick(1, 1, 1, 2, 4)
	p.PCT = r.Range(1, 4)
	if r.Chance(1, 25) {
		p.Strategy, p.Quantum = "random", 1
		p.Stall = r.Range(1, 9)
		p.Tasks = append(p.Tasks, []string{[]string{"enq", "deq", "enq"}[r.Intn(3)], "enq"})
		var churn []string
		// how many operations the parked one sleeps through: around powers of two
		// (recycling schemes keep rings and batches of such sizes)
		for n := (1 << r.Range(3, 11)) + r.Range(-2, 3); n > 0; n-- {
			churn = append(churn, "enq", "deq")
		}
		p.Tasks = append(p.Tasks, churn)
		return p
	}
	if r.Chance(1, 120) {
		p.Bulk = r.Pick(1000, 4095, 4096, 4097, 5000, 10000)
		p.Stall = 1 // (judged without the linearizability checker)
		p.Tasks = [][]string{{"enq", "enq"}, {"enq"}}
		return p
	}
	if r.Chance(1, 4) {
		// consumers racing for the head of a queue that is not empty
		p.Prefill = r.Range(3, 8)
		for i, nt := 0, r.Range(2, 4); i < nt; i++ {
			var ops []string
			for j := r.Range(1, 4); j > 0; j-- {
				ops = append(ops, "deq")
			}
			if r.Chance(1, 4) {
				ops = append(ops, []string{"enq", "len", "empty"}[r.Intn(3)])
			}
			p.Tasks = append(p.Tasks, ops)
		}
		return p
	}
	nt := r.Range(2, 4)
	total := 0
	for i := 0; i < nt; i++ {
		var ops []string
		n := r.Range(1, 5)
		role := r.Intn(3) // 0 mixed, 1 producer, 2 consumer
		for j := 0; j < n && total < 18; j++ {
			var op string
			switch x := r.Intn(10); {
			case role == 1 && x < 8 || role == 0 && x < 4:
				op = "enq"
			case role == 2 && x < 8 || role == 0 && x < 8:
				op = "deq"
			case x == 8:
				op = "len"
			default:
				op = "empty"
			}
			ops = append(ops, op)
			total++
		}
		p.Tasks = append(p.Tasks, ops)
	}
	return p
}

func Shrink(p *Plan) []any {
	var out []any
	clone := func() *Plan {
		b, _ := json.Marshal(p)
		var q Plan
		_ = json.Unmarshal(b, &q)
		return &q
	}
	if len(p.Tasks) > 2 {
		for i := range p.Tasks {
			q := clone()
			q.Tasks = append(q.Tasks[:i], q.Tasks[i+1:]...)
			out = append(out, q)
		}
	}
	for i, t := range p.Tasks {
		for j := range t {
			if len(t) > 1 {
				q := clone()
				q.Tasks[i] = append(q.Tasks[i][:j], q.Tasks[i][j+1:]...)
				out = append(out, q)
			}
		}
	}
	if p.Strategy != "random" || p.Quantum != 1 {
		q := clone()
		q.Strategy, q.Quantum = "random", 1
		out = append(out, q)
	}
	return out
}

type qin struct {
	op  string
	val int
}
type qout struct {
	val int // dequeued id, -1 empty
	n   int
	b   bool
}

var model = porcupine.Model{
	Init: func() interface{} { return []int{} },
	Step: func(state, input, output interface{}) (bool, interface{}) {
		st := state.([]int)
		in, out := input.(qin), output.(qout)
		switch in.op {
		case "enq":
			ns := append(append([]int{}, st...), in.val)
			return true, ns
		case "deq":
			if len(st) == 0 {
				return out.val == -1, st
			}
			if out.val != st[0] {
				return false, st
			}
			return true, append([]int{}, st[1:]...)
		}
		return true, st // len / empty: checked separately when nothing overlaps
	},
	Equal: func(a, b interface{}) bool {
		x, y := a.([]int), b.([]int)
		if len(x) != len(y) {
			return false
		}
		for i := range x {
			if x[i] != y[i] {
				return false
			}
		}
		return true
	},
	DescribeOperation: func(input, output interface{}) string {
		in, out := input.(qin), output.(qout)
		switch in.op {
		case "enq":
			return fmt.Sprintf("enq(%d)", in.val)
		case "deq":
			return fmt.Sprintf("deq()->%d", out.val)
		case "len":
			return fmt.Sprintf("len()->%d", out.n)
		}
		return fmt.Sprintf("empty()->%v", out.b)
	},
}

func Execute(t *testing.T, p *Plan, prop string) (out runner.Outcome) {
	var h runner.Hasher
	var viol *runner.Violation
	fail := func(key, format string, a ...any) {
		if viol == nil {
			viol = &runner.Violation{Key: "C13/" + key, Msg: fmt.Sprintf(format, a...)}
		}
	}
	var ops []porcupine.Operation
	probes := map[string]int{}
	var steps int
	var sig uint64
	var contended int
	func() {
		defer func() {
			if r := recover(); r != nil {
				fail("harness", "bubble: %v", r)
			}
		}()
		synctest.Test(t, func(t *testing.T) {
			cfg := vsched.Config{Seed: p.Seed, Strategy: p.Strategy, Quantum: p.Quantum, PCTDepth: p.PCT, MaxSteps: 20000}
			if p.Stall > 0 && len(p.Tasks) >= 2 {
				for i := 0; i < p.Stall; i++ {
					cfg.Decisions = append(cfg.Decisions, "t0|0")
				}
				for i := 0; i < 40*len(p.Tasks[1])+100; i++ {
					cfg.Decisions = append(cfg.Decisions, "t1|0")
				}
				cfg.MaxSteps = 200000 + 40*p.Bulk
			}
			s := vsched.New(cfg)
			defer s.Close()
			q := queue.NewLockFreeQueue()
			var clock int64
			nextID := 0
			enqueued := map[int]int{} // id -> producer
			dequeued := map[int]int{}
			var deqOrder []int // ids in the order they came out (meaningful with one consumer at a time)
			s.OnPanic = func(task string, v any, stack []byte) { fail("panic", "task %s panicked: %v", task, v) }
			s.OnQuiescent = func(int) int { return vsched.QStop }
			for i := 0; i < p.Bulk; i++ {
				nextID++
				enqueued[nextID] = 98
				tk := queue.GetTask()
				tk.Param = nextID
				q.Enqueue(tk)
			}
			if p.Bulk > 0 {
				probes["long-queue-at-rest"]++
				if n := q.Length(); int(n) != p.Bulk || q.IsEmpty() {
					fail("length", "Length()=%d IsEmpty()=%v with no operation in flight and %d tasks in the queue", n, q.IsEmpty(), p.Bulk)
				}
			}
			for i := 0; i < p.Prefill; i++ {
				// sequential set-up, recorded as completed operations of a client of its own
				nextID++
				enqueued[nextID] = 99
				tk := queue.GetTask()
				tk.Param = nextID
				q.Enqueue(tk)
				clock++
				call := clock
				clock++
				ops = append(ops, porcupine.Operation{ClientId: 99, Input: qin{"enq", nextID}, Call: call, Output: qout{}, Return: clock})
			}
			for ti, script := range p.Tasks {
				ti, script := ti, script
				s.Go(fmt.Sprintf("t%d", ti), func() {
					for _, op := range script {
						vsched.Yield("op")
						clock++
						call := clock
						var in qin
						var o qout
						switch op {
						case "enq":
							nextID++
							id := nextID
							enqueued[id] = ti
							in = qin{"enq", id}
							tk := queue.GetTask()
							tk.Param = id
							q.Enqueue(tk)
						case "deq":
							in = qin{op: "deq"}
							tk := q.Dequeue()
							o.val = -1
							if tk != nil {
								id, ok := tk.Param.(int)
								if !ok {
									fail("invented", "Dequeue returned a task that was never enqueued (param %v)", tk.Param)
								} else {
									o.val = id
									dequeued[id]++
									deqOrder = append(deqOrder, id)
								}
							}
						case "len":
							in = qin{op: "len"}
							o.n = int(q.Length())
						case "empty":
							in = qin{op: "empty"}
							o.b = q.IsEmpty()
						}
						clock++
						ops = append(ops, porcupine.Operation{ClientId: ti, Input: in, Call: call, Output: o, Return: clock})
						h.Add(fmt.Sprintf("t%d %s -> %v", ti, op, o))
					}
				})
			}
			s.Loop()
			// drain with a single task: everything enqueued comes out exactly once
			s2done := false
			s.Go("drain", func() {
				for {
					tk := q.Dequeue()
					if tk == nil {
						break
					}
					if id, ok := tk.Param.(int); ok {
						dequeued[id]++
						deqOrder = append(deqOrder, id)
					} else {
						fail("invented", "Dequeue returned a task that was never enqueued")
					}
				}
				if n := q.Length(); n != 0 || !q.IsEmpty() {
					fail("length-after-drain", "queue drained but Length()=%d IsEmpty()=%v", n, q.IsEmpty())
				}
				s2done = true
			})
			s.Resume()
			s.Loop()
			if !s2done {
				fail("harness", "drain task did not finish")
			}
			for id := range enqueued {
				if dequeued[id] != 1 {
					fail("exactly-once", "task %d was dequeued %d times after the queue was drained", id, dequeued[id])
				}
			}
			for id, n := range dequeued {
				if _, ok := enqueued[id]; !ok || n > 1 {
					fail("exactly-once", "task %d dequeued %d times (enqueued: %v)", id, n, ok)
				}
			}
			if p.Stall > 0 {
				// consumers never overlapped (task 1, then the drain): the order in
				// which items came out must keep each producer's enqueue order
				last := map[int]int{}
				for _, id := range deqOrder {
					pr := enqueued[id]
					if id < last[pr] {
						fail("producer-order", "item %d of producer t%d came out after its later item %d", id, pr, last[pr])
						break
					}
					last[pr] = id
				}
				probes["stalled-operation-histories"]++
			}
			steps, sig, contended = s.Step(), s.Signature(), s.Contended
			s.Teardown()
		})
	}()
	// quiet-interval checks of Length / IsEmpty
	for i, o := range ops {
		in := o.Input.(qin)
		if in.op != "len" && in.op != "empty" {
			continue
		}
		overlap := false
		size := 0
		for j, x := range ops {
			if i == j {
				continue
			}
			if x.Call < o.Return && x.Return > o.Call {
				overlap = true
				break
			}
			if x.Return < o.Call {
				xi, xo := x.Input.(qin), x.Output.(qout)
				if xi.op == "enq" {
					size++
				} else if xi.op == "deq" && xo.val >= 0 {
					size--
				}
			}
		}
		if overlap {
			continue
		}
		probes["quiet-length-checks"]++
		oo := o.Output.(qout)
		if in.op == "len" && oo.n != size {
			fail("length", "Length()=%d with no operation in flight and %d tasks in the queue", oo.n, size)
		}
		if in.op == "empty" && oo.b != (size == 0) {
			fail("isempty", "IsEmpty()=%v with no operation in flight and %d tasks in the queue", oo.b, size)
		}
	}
	if viol == nil && len(ops) > 0 && p.Stall == 0 {
		res := porcupine.CheckOperationsTimeout(model, ops, 20*time.Second)
		switch res {
		case porcupine.Illegal:
			desc := ""
			for _, o := range ops {
				desc += fmt.Sprintf("[c%d %d-%d %s] ", o.ClientId, o.Call, o.Return, model.DescribeOperation(o.Input, o.Output))
			}
			fail("not-linearizable", "history is not linearizable as a FIFO queue: %s", desc)
		case porcupine.Unknown:
			out.Inconcl = true
		}
	}
	out.Violation = viol
	out.Steps = steps
	out.Signature = sig
	out.LogHash = h.Sum()
	out.Probes = probes
	out.NonTrivial = contended >= 3 && len(ops) >= 3
	return
}
