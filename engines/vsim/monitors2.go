package vsim

import (
	"fmt"
	"net"
	"sort"

	gnet "github.com/panjf2000/gnet/v2"
	"golang.org/x/sys/unix"

	"verif/sim/vsched"
)

// ---- C17: addresses ---------------------------------------------------------

func (w *World) zoneName(id uint32) string {
	if id == 0 {
		return ""
	}
	if i, ok := w.k.InterfaceByIndex(int(id)); ok {
		return i.Name
	}
	return fmt.Sprint(id)
}

// addrProblem compares a net.Addr reported by the framework with the socket
// address the kernel knows ("" when they agree).
func (w *World) addrProblem(a net.Addr, sa unix.Sockaddr) string {
	if a == nil {
		return "nil address"
	}
	switch s := sa.(type) {
	case *unix.SockaddrInet4:
		t, ok := a.(*net.TCPAddr)
		if !ok || t.Port != s.Port || !t.IP.Equal(net.IP(s.Addr[:])) || t.Zone != "" {
			return fmt.Sprintf("got %v, kernel has %v:%d", a, net.IP(s.Addr[:]), s.Port)
		}
	case *unix.SockaddrInet6:
		t, ok := a.(*net.TCPAddr)
		if !ok || t.Port != s.Port || !t.IP.Equal(net.IP(s.Addr[:])) || t.Zone != w.zoneName(s.ZoneId) {
			return fmt.Sprintf("got %v, kernel has [%v%%%s]:%d", a, net.IP(s.Addr[:]), w.zoneName(s.ZoneId), s.Port)
		}
	case *unix.SockaddrUnix:
		t, ok := a.(*net.UnixAddr)
		if !ok || t.Name != s.Name {
			return fmt.Sprintf("got %v, kernel has unix:%q", a, s.Name)
		}
	}
	return ""
}

// checkAddrsAt is evaluated inside every callback of a connection.
func (w *World) checkAddrsAt(cs *connState, where string) {
	if cs.cp.Dial {
		return // client-side addresses are rewritten by the framework (unix: synthetic local name)
	}
	if p := w.addrProblem(cs.c.RemoteAddr(), cs.sock.Remote); p != "" {
		w.violate("C17", "remote-addr", "conn %d (%s): RemoteAddr: %s", cs.idx, where, p)
	}
	la := cs.c.LocalAddr()
	if p := w.addrProblem(la, cs.sock.Local); p != "" {
		w.violate("C17", "local-addr", "conn %d (%s): LocalAddr: %s", cs.idx, where, p)
	}
	w.probes["address-checks"]++
}

// ---- C14: registry snapshot ---------------------------------------------------

// checkRegistry compares the registry of the loop that owns cs with the set of
// live connections the harness attributes to that loop's task. kind tells which
// callback we are in: during OnOpen the connection is already registered,
// during OnClose it has already been removed.
func (w *World) checkRegistry(cs *connState, kind, task string) {
	snap := vsched.Hook("registry")
	if snap == nil {
		return
	}
	res, _ := snap(any(cs.c)).([]int)
	if res == nil {
		return
	}
	w.probes["registry-snapshots"]++
	want := map[int]*connState{}
	for _, o := range w.conns {
		if o == nil || o.task != task || !o.opened || o.closed {
			continue
		}
		want[o.fd] = o
	}
	if kind == "OnOpen" {
		want[cs.fd] = cs
	}
	if kind == "OnClose" {
		delete(want, cs.fd)
	}
	got := map[int]int{}
	for _, fd := range res[1:] {
		got[fd]++
	}
	if res[0] != len(want) {
		w.violate("C14", "count", "%s of conn %d on %s: registry count is %d, %d connections of this loop are live (%v)", kind, cs.idx, task, res[0], len(want), keys(want))
		return
	}
	for fd, n := range got {
		if n > 1 {
			w.violate("C14", "iterate-twice", "%s of conn %d: iteration visited descriptor %d %d times", kind, cs.idx, fd, n)
			return
		}
		if want[fd] == nil {
			w.violate("C14", "iterate-stale", "%s of conn %d: iteration visited descriptor %d which is not a live connection of this loop (live: %v)", kind, cs.idx, fd, keys(want))
			return
		}
	}
	for fd := range want {
		if got[fd] == 0 {
			w.violate("C14", "iterate-missing", "%s of conn %d: iteration did not visit live descriptor %d (visited %v)", kind, cs.idx, fd, res[1:])
			return
		}
	}
	look := vsched.Hook("registry-lookup")
	if look == nil {
		return
	}
	for fd, o := range want {
		if r, _ := look([3]any{cs.c, fd, gnet.Conn(o.c)}).(int); r != 1 {
			w.violate("C14", "lookup", "%s of conn %d: lookup of live descriptor %d returned %s", kind, cs.idx, fd, [...]string{"nothing", "ok", "another connection"}[r])
			return
		}
	}
	// descriptors that are not live on this loop must not resolve
	for _, o := range w.conns {
		if o == nil || want[o.fd] != nil {
			continue
		}
		if r, _ := look([3]any{cs.c, o.fd, gnet.Conn(o.c)}).(int); r != 0 {
			w.violate("C14", "lookup-stale", "%s of conn %d: lookup of descriptor %d (not live on this loop) returned a connection", kind, cs.idx, o.fd)
			return
		}
	}
}

func keys(m map[int]*connState) []int {
	var out []int
	for k := range m {
		out = append(out, k)
	}
	sort.Ints(out)
	return out
}

// ---- C15: load balancing ------------------------------------------------------

// lbOracle runs at the end: accepted connections in accept order and the loop
// (task) on which each of them was served.
func (w *World) lbOracle() {
	c := w.p.Cfg
	if c.ReusePort || c.Loops < 1 || w.p.Cfg.Network == "udp" || c.Client || w.multi() && c.LB == 0 {
		return
	}
	if c.LB == 2 {
		// a pure function of the remote address string: every connection counts,
		// accepted or handed over through Register/Enroll, in any order
		byAddr := map[string]*connState{}
		for _, cs := range w.conns {
			if cs == nil || cs.task == "" || cs.addrStr == "" || cs.udp || w.peers[cs.idx].regOutsideRunning {
				continue
			}
			if o := byAddr[cs.addrStr]; o != nil && o.task != cs.task {
				w.violate("C15", "hash-unstable", "source-address hash: remote address %q was served by loop %s (conn %d) and by loop %s (conn %d)", cs.addrStr, o.task, o.idx, cs.task, cs.idx)
				return
			} else if o != nil {
				w.probes["hash-same-address-pairs"]++
			}
			byAddr[cs.addrStr] = cs
		}
	}
	for _, cp := range w.p.Conns {
		if cp.Dial {
			return // Register consumes balancer slots from other goroutines
		}
	}
	bySock := map[int]*connState{}
	for _, cs := range w.conns {
		if cs != nil && cs.sock != nil {
			bySock[cs.sock.ID] = cs
		}
	}
	var seq []*connState
	for _, id := range w.k.AcceptLog {
		cs := bySock[id]
		if cs == nil || cs.task == "" {
			break // a gap: later positions cannot be attributed
		}
		seq = append(seq, cs)
	}
	tasks := map[string]bool{}
	for _, cs := range seq {
		tasks[cs.task] = true
	}
	if len(tasks) > c.Loops {
		w.violate("C15", "unknown-loop", "connections were served by %d different loop tasks, the engine has %d loops", len(tasks), c.Loops)
		return
	}
	if len(seq) > 0 {
		w.probes["lb-sequences-checked"]++
	}
	N := c.Loops
	switch c.LB {
	case 0: // round robin
		for i := range seq {
			if i+N < len(seq) && seq[i].task != seq[i+N].task {
				w.violate("C15", "rr-cycle", "round-robin with %d loops: accepted connection #%d ran on %s, #%d on %s", N, i, seq[i].task, i+N, seq[i+N].task)
				return
			}
			for j := i + 1; j < i+N && j < len(seq); j++ {
				if seq[i].task == seq[j].task {
					w.violate("C15", "rr-repeat", "round-robin with %d loops: accepted connections #%d and #%d (fewer than %d apart) ran on the same loop %s", N, i, j, N, seq[i].task)
					return
				}
			}
		}
	case 2: // source address hash
		byAddr := map[string]string{}
		for _, cs := range seq {
			a := cs.addrStr
			if t, ok := byAddr[a]; ok && t != cs.task {
				w.violate("C15", "hash-unstable", "source-address hash: remote address %q was served by loop %s and by loop %s", a, t, cs.task)
				return
			}
			byAddr[a] = cs.task
		}
	}
}

// lcSnapshot is taken at the accept4 call of a run whose connects are
// serialised (nothing else in transit): the per-loop live counts the balancer
// is about to look at.
func (w *World) lcSnapshot(sockID int) {
	c := w.p.Cfg
	if c.LB != 1 || c.ReusePort || !c.Serial || len(c.OffSites) != 1 || c.OffSites[0] != "atomic:" {
		return
	}
	counts := map[string]int{}
	for _, o := range w.conns {
		if o == nil || o.task == "" {
			continue
		}
		if _, ok := counts[o.task]; !ok {
			counts[o.task] = 0
		}
		if o.opened && !o.closed {
			counts[o.task]++
		}
	}
	busy := false
	for _, n := range w.loopTasks {
		if n > 0 {
			busy = true
		}
	}
	if busy {
		return // a callback is in flight: the registry may be one step ahead of the harness
	}
	w.lcSnap[sockID] = counts
}

// lcAtOpen is the least-connections check, evaluated when the connection opens
// against the snapshot taken when it was accepted.
func (w *World) lcAtOpen(cs *connState) {
	counts, ok := w.lcSnap[cs.sock.ID]
	if !ok || cs.cp.Dial {
		return
	}
	c := w.p.Cfg
	mine := counts[cs.task]
	minSeen := mine
	for _, n := range counts {
		if n < minSeen {
			minSeen = n
		}
	}
	seen := len(counts)
	if _, ok := counts[cs.task]; !ok {
		seen++
	}
	if seen < c.Loops {
		minSeen = 0 // a loop that never served anything has no connections
	}
	w.probes["lc-checks"]++
	if mine > minSeen {
		w.violate("C15", "lc-not-minimal", "least-connections: connection %d was given to loop %s which had %d connections when it was accepted while another loop had %d (per-loop counts %v, %d loops)", cs.idx, cs.task, mine, minSeen, counts, c.Loops)
	}
}
