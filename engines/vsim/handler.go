package vsim

import (
	"errors"
	"fmt"
	"github.com/panjf2000/gnet/v2/pkg/pool/byteslice"
	"io"
	"strings"
	"time"
	"verif/sim/vsys"

	gnet "github.com/panjf2000/gnet/v2"

	"verif/sim/vsched"
)

type handler struct{ w *World }

func (w *World) enterCB(kind string, cs *connState) (task string) {
	task = vsched.CurrentName()
	if w.runDone {
		w.cbAfterReturn++
		w.violate("C06", "callback-after-return", "%s ran on task %s after Run had returned", kind, task)
	}
	if w.loopTasks[task] > 0 && w.inCall[task] == 0 {
		w.violate("C05", "nested-callback", "%s started on task %s while another callback of that loop was in flight", kind, task)
	}
	w.loopTasks[task]++
	if cs != nil {
		if cs.task == "" {
			cs.task = task
		} else if cs.task != task {
			w.violate("C05", "loop-changed", "conn %d: %s ran on task %s, earlier callbacks ran on %s", cs.idx, kind, task, cs.task)
		}
		cs.inCB = true
	}
	w.logf("cb %s conn=%d fd=%d task=%s", kind, connIdx(cs), connFd(cs), task)
	if cs != nil && cs.c != nil {
		if !cs.udp {
			w.checkAddrsAt(cs, kind)
		}
		w.checkRegistry(cs, kind, task)
	}
	return
}

func connIdx(cs *connState) int {
	if cs == nil {
		return -1
	}
	return cs.idx
}

func (w *World) exitCB(task string, cs *connState) {
	w.loopTasks[task]--
	if cs != nil {
		cs.inCB = false
		vsched.Release(&cs.pub)
	}
}

func (h *handler) OnBoot(eng gnet.Engine) gnet.Action {
	defer vsched.Restore(vsched.EnterHarness())
	w := h.w
	w.eng = eng
	w.booted = true
	vsched.Release(&w.pubEng) // the application keeps the handle where its other goroutines find it
	w.bootCount++
	w.logf("OnBoot")
	if w.p.Stop.Source == "boot" {
		w.stopRequested, w.otherShutdown = true, true
		return gnet.Shutdown
	}
	return gnet.None
}

func (h *handler) OnShutdown(eng gnet.Engine) {
	defer vsched.Restore(vsched.EnterHarness())
	w := h.w
	w.shutdownCount++
	w.logf("OnShutdown #%d", w.shutdownCount)
	if w.shutdownCount > 1 {
		w.violate("C06", "shutdown-twice", "OnShutdown invoked %d times", w.shutdownCount)
	}
}

func (h *handler) OnTick() (time.Duration, gnet.Action) {
	defer vsched.Restore(vsched.EnterHarness())
	w := h.w
	w.tickCount++
	if w.runDone {
		w.violate("C06", "callback-after-return", "OnTick ran after Run had returned")
	}
	d := time.Duration(max(1, w.p.Cfg.TickMs)) * time.Millisecond
	if w.tickCount > 1 && w.ph == phWorkload {
		w.probes["ontick-again-during-workload"]++
	}
	if w.p.Stop.Source == "tick" && w.tickCount >= max(1, w.p.Stop.AtStep) {
		if w.tickCount > 1 && w.ph == phWorkload {
			w.probes["shutdown-from-later-tick"]++
		}
		w.otherShutdown = true
		if !w.stopRequested {
			w.stopRequested = true
			w.markLocalAll()
		}
		return d, gnet.Shutdown
	}
	return d, gnet.None
}

func (w *World) markLocalAll() {
	for _, cs := range w.conns {
		if cs != nil && cs.opened && !cs.closed {
			cs.localReq = true
		}
	}
}

func (h *handler) OnOpen(c gnet.Conn) (out []byte, action gnet.Action) {
	defer vsched.Restore(vsched.EnterHarness())
	w := h.w
	fd := c.Fd()
	sk := w.k.SockOfFd(fd)
	var cs *connState
	if sk == nil && w.k.KindOf(fd) == "udp" {
		// a connected UDP socket of a client: the dup of the application's descriptor
		for _, ps := range w.peers {
			if ps.cp.UDP && ps.connected && w.conns[ps.idx] == nil && w.k.SameFile(fd, ps.dialFd) {
				cs = &connState{idx: ps.idx, cp: ps.cp, c: c, fd: fd, gen: w.k.FdGen(fd), udp: true}
				break
			}
		}
	}
	if sk != nil {
		for _, ps := range w.peers {
			if ps.srv == sk {
				cs = &connState{idx: ps.idx, cp: ps.cp, c: c, sock: sk, fd: fd, gen: w.k.FdGen(fd)}
				break
			}
		}
	}
	if cs == nil {
		w.violate("C04", "open-unknown", "OnOpen for a connection (fd %d) the harness cannot attribute to a peer", fd)
		return nil, gnet.None
	}
	if old := w.conns[cs.idx]; old != nil {
		w.violate("C04", "open-twice", "conn %d: OnOpen invoked twice", cs.idx)
		return nil, gnet.None
	}
	if prev := w.byConn[c]; prev != nil && !prev.closed {
		w.violate("C04", "conn-object-reused", "conn %d: OnOpen handed out the object of the still open conn %d", cs.idx, prev.idx)
	}
	w.conns[cs.idx] = cs
	w.byConn[c] = cs
	task := w.enterCB("OnOpen", cs)
	defer w.exitCB(task, cs)
	cs.opened = true
	if w.loopOf == nil && !cs.udp {
		w.loopOf, w.loopOfConn = c.EventLoop(), cs
	}
	vsched.Release(&cs.pub) // from here on other goroutines of the application may know the connection
	w.openedN++
	w.countChanged()
	if ra := c.RemoteAddr(); ra != nil {
		cs.addrStr = ra.String()
	}
	if cs.udp {
		if n := cs.cp.OpenReply; n > 0 {
			// the reply of OnOpen on a connected UDP socket: exactly one datagram
			cs.udpOpenReply = outPayload(w.newOpID(), n)
			cs.udpOpenAt = len(w.k.UDPSent)
			w.probes["udp-conn-open-reply"]++
			return cs.udpOpenReply, gnet.None
		}
		return nil, gnet.None
	}
	w.lcAtOpen(cs)
	if cs.cp.DupKeep {
		// the application keeps its own duplicate of the connection's descriptor
		// (a second reference to the open file): the framework must neither close
		// it nor keep polling the connection's own number after closing it
		if fd, err := c.Dup(); err == nil && fd >= 0 {
			w.k.Transfer(fd, vsys.OwnUser)
			w.userFds = append(w.userFds, fd)
			w.probes["conn-dup-kept"]++
		}
	}
	for i := range cs.cp.OpenW {
		w.doWrite(cs, &cs.cp.OpenW[i], "OnOpen")
	}
	if n := cs.cp.OpenReply; n > 0 {
		id := w.newOpID()
		out = make([]byte, n)
		for i := range out {
			out[i] = payloadOut(id, i)
		}
		// the reply takes effect when OnOpen returns; it is accepted unless the write fails.
		// A connection that was closed inside OnOpen (a failing write of the script) has no
		// stream left for it: nothing of the reply may reach the peer.
		if cs.closed {
			w.probes["open-reply-on-closed-conn"]++
			w.logf("conn %d open-reply op=%d n=%d dropped: closed inside OnOpen", cs.idx, id, n)
		} else {
			cs.W = append(cs.W, wEntry{id: id, n: n})
			cs.wBytes += n
			w.logf("conn %d open-reply op=%d n=%d", cs.idx, id, n)
		}
	}
	action = gnet.Action(cs.cp.OpenAct)
	w.noteAction(cs, action)
	return
}

func (w *World) noteAction(cs *connState, a gnet.Action) {
	switch a {
	case gnet.Close:
		cs.localReq = true
	case gnet.Shutdown:
		if w.clientAction(cs) {
			return
		}
		w.otherShutdown = true
		if !w.stopRequested {
			w.stopRequested = true
			w.logf("shutdown action from conn %d", cs.idx)
		}
		w.markLocalAll()
	}
}

// clientAction: a Shutdown action returned by a callback of a gnet.Client makes
// that connection's event loop exit (closing its connections); the client as
// a whole stops with Client.Stop, which the world still has to call.
func (w *World) clientAction(cs *connState) bool {
	if !w.p.Cfg.Client {
		return false
	}
	w.probes["client-shutdown-action"]++
	w.logf("shutdown action from conn %d (client: its loop exits)", cs.idx)
	w.markLocalAll()
	return true
}

func (h *handler) OnClose(c gnet.Conn, err error) (action gnet.Action) {
	defer vsched.Restore(vsched.EnterHarness())
	w := h.w
	cs := w.byConn[c]
	if cs == nil {
		w.violate("C04", "close-without-open", "OnClose(err=%v) for a connection that never had OnOpen", err)
		return gnet.None
	}
	task := w.enterCB("OnClose", cs)
	defer w.exitCB(task, cs)
	if cs.closed {
		w.violate("C04", "close-twice", "conn %d: OnClose invoked twice (err=%v, first err=%v)", cs.idx, err, cs.closeErr)
		return gnet.None
	}
	if cs.udp {
		w.checkUDPOpenReply(cs)
		cs.closed, cs.closeErr = true, err
		w.closedN++
		w.countChanged()
		w.logf("conn %d (udp client) OnClose err=%v", cs.idx, err != nil)
		if err != nil && !w.k.FdFaulted(cs.fd) && !w.peers[cs.idx].udpEmpty && !w.peers[cs.idx].udpUnreach {
			w.violate("C04", "close-error-without-cause", "conn %d (udp client): OnClose reported %v but no I/O cause existed", cs.idx, err)
		}
		if err == nil && !cs.localReq && !w.stopRequested && !w.stopEverAsked {
			w.violate("C04", "close-nil-without-local-cause", "conn %d (udp client): OnClose reported a nil error but no local close had been requested (ICMP error pending on the socket: %v)", cs.idx, w.peers[cs.idx].udpUnreach)
		}
		if gnet.Action(cs.cp.CloseAct) == gnet.Shutdown {
			w.clientAction(cs)
		}
		return gnet.Action(cs.cp.CloseAct)
	}
	// which causes existed before this callback?
	if cs.sock.PeerSawFinOrErr() || cs.sock.PeerGone() || cs.sock.WriteErrs+cs.sock.ReadErrs > 0 || cs.failed != nil || w.faultTouched(cs) {
		cs.peerCause = true
	}
	cs.closed, cs.closeErr = true, err
	cs.held, cs.peeks = nil, nil // nothing obtained from a connection outlives it
	w.closedN++
	w.countChanged()
	w.logf("conn %d OnClose err=%v local=%v peer=%v", cs.idx, err != nil, cs.localReq, cs.peerCause)
	if err == nil && !cs.localReq && !w.stopRequested && !w.stopEverAsked {
		w.violate("C04", "close-nil-without-local-cause", "conn %d: OnClose reported a nil error but no local close had been requested (peer cause present: %v)", cs.idx, cs.peerCause)
	}
	if err != nil && !cs.peerCause {
		w.violate("C04", "close-error-without-cause", "conn %d: OnClose reported %v but no peer or I/O cause existed", cs.idx, err)
	}
	// C01: an orderly peer close must come after everything sent was offered
	ps := w.peers[cs.idx]
	if err != nil && !cs.localReq && !w.stopRequested && !w.stopEverAsked && ps.closedByPeer && !cs.sock.PeerSawReset() && cs.sock.WriteErrs == 0 && (cs.sock.EOFReads > 0 || errors.Is(err, io.EOF)) && !w.faultTouched(cs) && cs.failed == nil && len(w.p.Faults) == 0 {
		if cs.offered != ps.sent {
			w.violate("C01", "close-before-offered", "conn %d: peer sent %d bytes and closed in order, OnClose fired after only %d bytes had been offered to OnTraffic (kernel handed over %d)", cs.idx, ps.sent, cs.offered, cs.sock.ReadBytes)
		}
	}
	// a handler may use the connection inside OnClose: a parting write (best
	// effort: what is accepted may or may not reach the peer), or a redundant
	// close, neither of which may start a second teardown
	if len(cs.cp.CloseW) > 0 || cs.cp.CloseAgain != 0 {
		cs.inOnClose = true
		for i := range cs.cp.CloseW {
			w.doWrite(cs, &cs.cp.CloseW[i], "OnClose")
		}
		switch cs.cp.CloseAgain {
		case 1:
			w.inCall[task]++
			_ = c.EventLoop().Close(c)
			w.inCall[task]--
		case 2:
			_ = c.Close()
		}
		cs.inOnClose = false
		w.probes["used-conn-inside-onclose"]++
	}
	action = gnet.Action(cs.cp.CloseAct)
	if action == gnet.Shutdown && w.clientAction(cs) {
		return
	}
	if action == gnet.Shutdown {
		if w.inCall[task] > 0 {
			// OnClose runs nested inside the handler's own call (EventLoop.Close,
			// a failing Write, Flush): the action travels back as that call's error
			w.nestedShutdown++
		} else {
			w.otherShutdown = true
		}
		if !w.stopRequested {
			w.stopRequested = true
			w.markLocalAll()
		}
	}
	return
}

func (w *World) faultTouched(cs *connState) bool {
	if cs.faulted {
		return true
	}
	if w.k.FdGen(cs.fd) == cs.gen && w.k.FdFaulted(cs.fd) {
		cs.faulted = true
	}
	return cs.faulted
}

func (h *handler) OnTraffic(c gnet.Conn) (action gnet.Action) {
	defer vsched.Restore(vsched.EnterHarness())
	w := h.w
	if w.p.UDP != nil {
		return w.onTrafficUDP(c)
	}
	cs := w.byConn[c]
	if cs == nil {
		w.violate("C04", "traffic-without-open", "OnTraffic for a connection that never had OnOpen")
		return gnet.None
	}
	task := w.enterCB("OnTraffic", cs)
	defer w.exitCB(task, cs)
	cs.held, cs.peeks = nil, nil // what a read call returned is only good inside the callback that made it
	defer func() { cs.held, cs.peeks = nil, nil }()
	if cs.udp {
		if cs.closed {
			w.violate("C04", "traffic-after-close", "conn %d (udp client): OnTraffic after OnClose", cs.idx)
			return gnet.None
		}
		return w.udpClientTraffic(cs)
	}
	if !cs.opened {
		w.violate("C04", "traffic-before-open", "conn %d: OnTraffic before OnOpen", cs.idx)
	}
	if cs.closed {
		cs.afterClose++
		w.violate("C04", "traffic-after-close", "conn %d: OnTraffic after OnClose", cs.idx)
		return gnet.None
	}
	kin := cs.sock.ReadBytes
	if kin == cs.offered {
		// no new bytes from the kernel: must be a Wake (or an ET re-trigger with leftover)
		if cs.wakesDue > 0 {
			cs.wakesDue--
			w.probes["wake-traffic"]++
		} else {
			cs.extraTraf++
		}
	}
	if kin > cs.offered {
		cs.offered = kin
	}
	// C01 invariant at callback entry
	if !w.checkInbound(cs, "entry") {
		return gnet.None
	}
	if cs.consumed < kin-0 && c.InboundBuffered() > 0 && cs.nTraffic > 0 {
		w.probes["leftover-present"]++
	}
	var step *TStep
	if cs.nTraffic < len(cs.cp.Traffic) {
		step = &cs.cp.Traffic[cs.nTraffic]
	}
	if w.safeCtxConn(cs.idx) {
		// the loop's side of the safe-context accessors, while goroutines of the application use them too
		w.safeCtxOps(cs, c, 2*cs.nTraffic+1+cs.nTraffic%2, 0)
	}
	cs.nTraffic++
	if step == nil {
		// default: consume everything with Next(-1)
		w.doRead(cs, &ROp{M: "next", N: -1})
		return gnet.None
	}
	for i := range step.R {
		if !w.doRead(cs, &step.R[i]) {
			return gnet.None
		}
	}
	for i := range step.W {
		w.doWrite(cs, &step.W[i], "OnTraffic")
		if cs.closed {
			return gnet.None
		}
	}
	if step.WakeSelf {
		cs.wakesDue++
		id := w.newAsync("wake", cs.idx, -1)
		err := c.Wake(func(c gnet.Conn, err error) error {
			defer vsched.Restore(vsched.EnterHarness())
			w.asyncDone(id, c, err)
			return nil
		})
		w.asyncIssued(id, err)
		if err != nil {
			cs.wakesDue--
		}
	}
	if step.CloseSelf {
		cs.localReq = true
		w.inCall[cs.task]++
		err := c.EventLoop().Close(c)
		w.inCall[cs.task]--
		if err != nil {
			w.logf("conn %d EventLoop.Close err=%v", cs.idx, err)
		}
		return gnet.None
	}
	action = gnet.Action(step.Act)
	w.noteAction(cs, action)
	return
}

// checkInbound verifies consumed + InboundBuffered == bytes the kernel handed over.
func (w *World) checkInbound(cs *connState, where string) bool {
	kin := cs.sock.ReadBytes
	b := cs.c.InboundBuffered()
	if cs.consumed+b != kin {
		w.violate("C01", "conservation", "conn %d (%s): consumed %d + InboundBuffered %d != %d bytes delivered by the kernel", cs.idx, where, cs.consumed, b, kin)
		return false
	}
	return true
}

func (w *World) checkBytes(cs *connState, got []byte, off int, what string) bool {
	for i, b := range got {
		if b != payloadIn(cs.idx, off+i) {
			w.violate("C01", "content", "conn %d: %s returned a wrong byte at stream offset %d (got %#x want %#x; %d bytes returned at offset %d)", cs.idx, what, off+i, b, payloadIn(cs.idx, off+i), len(got), off)
			return false
		}
	}
	return true
}

type scriptWriter struct {
	acc int
	got []byte
}

func (s *scriptWriter) Write(p []byte) (int, error) {
	defer vsched.Restore(vsched.EnterHarness())
	n := len(p)
	if s.acc >= 0 && n > s.acc {
		n = s.acc
	}
	s.got = append(s.got, p[:n]...)
	if s.acc >= 0 {
		s.acc -= n
	}
	if n < len(p) {
		return n, io.ErrShortWrite
	}
	return n, nil
}

// echoWriter writes what WriteTo hands it back to the same connection.
type echoWriter struct {
	w   *World
	cs  *connState
	got []byte
}

func (e *echoWriter) Write(p []byte) (int, error) {
	defer vsched.Restore(vsched.EnterHarness())
	w, cs := e.w, e.cs
	keep := append([]byte(nil), p...)
	w.inCall[cs.task]++
	n, err := cs.c.Write(p)
	w.inCall[cs.task]--
	id := w.newOpID()
	w.logf("conn %d echo Write op=%d n=%d -> %d %v", cs.idx, id, len(keep), n, err != nil)
	if err != nil {
		if cs.failed == nil {
			cs.failed = &wEntry{id: id, n: len(keep), raw: keep}
		}
		cs.peerCause = true
		w.probes["sync-write-failed"]++
		return 0, err
	}
	if n != len(keep) {
		w.violate("C02", "count", "conn %d: Write of %d bytes (echo) returned %d without error", cs.idx, len(keep), n)
	}
	cs.W = append(cs.W, wEntry{id: id, n: len(keep), raw: keep})
	cs.wBytes += len(keep)
	e.got = append(e.got, keep...)
	return len(keep), nil
}

// doRead performs one read-method call and checks it. Returns false after a violation.
func (w *World) doRead(cs *connState, op *ROp) bool {
	c := cs.c
	if op.M == "peek" {
		// the previous result, if it came from a Peek, stays valid next to the new one
		if cs.held != nil && strings.HasPrefix(cs.heldWhat, "Peek") {
			cs.peeks = append(cs.peeks, heldSlice{cs.held, cs.heldOff, cs.heldWhat})
		}
	} else {
		cs.peeks = nil // a consuming call: earlier Peek results are void
	}
	cs.held = nil // any read-type call may invalidate what a Next returned
	buffered := c.InboundBuffered()
	// probes: did this call have to stitch leftover bytes (ring) with fresh ones?
	if h := vsched.Hook("inbound-split"); h != nil {
		if sp, _ := h(any(c)).([]int); len(sp) == 2 && sp[0] > 0 && sp[1] > 0 {
			n := op.N
			if n <= 0 || n > buffered {
				n = buffered
			}
			if n > sp[0] {
				w.probes[op.M+"-across-ring-and-fresh"]++
			} else {
				w.probes[op.M+"-within-leftover-ring"]++
			}
		}
	}
	switch op.M {
	case "read":
		n := op.N
		if n < 0 {
			n = buffered
		}
		p := make([]byte, n)
		m, err := c.Read(p)
		w.logf("conn %d Read(%d)=%d", cs.idx, n, m)
		if m < 0 || m > n || m > buffered {
			w.violate("C01", "count", "conn %d: Read into %d bytes with %d buffered returned %d (%v)", cs.idx, n, buffered, m, err)
			return false
		}
		if !w.checkBytes(cs, p[:m], cs.consumed, "Read") {
			return false
		}
		cs.consumed += m
	case "next":
		buf, err := c.Next(op.N)
		w.logf("conn %d Next(%d)=%d %v", cs.idx, op.N, len(buf), err != nil)
		if op.N > buffered {
			if err == nil {
				w.violate("C01", "short-buffer", "conn %d: Next(%d) with only %d buffered returned %d bytes and no error", cs.idx, op.N, buffered, len(buf))
				return false
			}
			break
		}
		want := op.N
		if want <= 0 {
			want = buffered
		}
		if err != nil || len(buf) != want {
			w.violate("C01", "count", "conn %d: Next(%d) with %d buffered returned %d bytes, err=%v", cs.idx, op.N, buffered, len(buf), err)
			return false
		}
		if !w.checkBytes(cs, buf, cs.consumed, "Next") {
			return false
		}
		cs.held, cs.heldOff, cs.heldWhat = buf, cs.consumed, fmt.Sprintf("Next(%d)", op.N)
		cs.consumed += len(buf)
	case "peek", "peekdiscard":
		buf, err := c.Peek(op.N)
		w.logf("conn %d Peek(%d)=%d %v", cs.idx, op.N, len(buf), err != nil)
		if op.N > buffered {
			if err == nil {
				w.violate("C01", "short-buffer", "conn %d: Peek(%d) with only %d buffered returned %d bytes and no error", cs.idx, op.N, buffered, len(buf))
				return false
			}
			break
		}
		want := op.N
		if want <= 0 {
			want = buffered
		}
		if err != nil || len(buf) != want {
			w.violate("C01", "count", "conn %d: Peek(%d) with %d buffered returned %d bytes, err=%v", cs.idx, op.N, buffered, len(buf), err)
			return false
		}
		if !w.checkBytes(cs, buf, cs.consumed, "Peek") {
			return false
		}
		if c.InboundBuffered() != buffered {
			w.violate("C01", "peek-consumes", "conn %d: Peek(%d) changed InboundBuffered from %d to %d", cs.idx, op.N, buffered, c.InboundBuffered())
			return false
		}
		if op.M == "peek" {
			cs.held, cs.heldOff, cs.heldWhat = buf, cs.consumed, fmt.Sprintf("Peek(%d)", op.N)
			w.checkHeld(cs, "a further Peek")
		}
		if op.M == "peekdiscard" {
			d, derr := c.Discard(len(buf))
			w.logf("conn %d Discard(%d)=%d", cs.idx, len(buf), d)
			wantD := len(buf)
			if len(buf) == 0 {
				wantD = buffered // Discard(0) discards everything
			}
			if derr != nil || d != wantD {
				w.violate("C01", "count", "conn %d: Discard(%d) with %d buffered returned (%d, %v)", cs.idx, len(buf), buffered, d, derr)
				return false
			}
			cs.consumed += d
		}
	case "discard":
		d, derr := c.Discard(op.N)
		w.logf("conn %d Discard(%d)=%d", cs.idx, op.N, d)
		want := op.N
		if want <= 0 || want > buffered {
			want = buffered
		}
		if derr != nil || d != want {
			w.violate("C01", "count", "conn %d: Discard(%d) with %d buffered returned (%d, %v)", cs.idx, op.N, buffered, d, derr)
			return false
		}
		cs.consumed += d
	case "writeto":
		if op.Acc == -2 {
			// the echo idiom: the connection is its own writer (a failing write
			// closes the connection in the middle of WriteTo)
			ew := &echoWriter{w: w, cs: cs}
			n, err := c.WriteTo(ew)
			w.logf("conn %d WriteTo(itself) n=%d %v", cs.idx, n, err != nil)
			w.probes["writeto-itself"]++
			if int(n) != len(ew.got) {
				w.violate("C01", "count", "conn %d: WriteTo(the connection itself) reported %d bytes, the connection's Write accepted %d (err=%v)", cs.idx, n, len(ew.got), err)
				return false
			}
			if !w.checkBytes(cs, ew.got, cs.consumed, "WriteTo") {
				return false
			}
			cs.consumed += len(ew.got)
			if cs.closed {
				return false
			}
			break
		}
		sw := &scriptWriter{acc: op.Acc}
		if op.Acc <= 0 {
			sw.acc = -1
		}
		n, err := c.WriteTo(sw)
		w.logf("conn %d WriteTo acc=%d n=%d %v", cs.idx, op.Acc, n, err != nil)
		if int(n) != len(sw.got) {
			w.violate("C01", "count", "conn %d: WriteTo reported %d bytes, the writer accepted %d (err=%v)", cs.idx, n, len(sw.got), err)
			return false
		}
		if !w.checkBytes(cs, sw.got, cs.consumed, "WriteTo") {
			return false
		}
		cs.consumed += len(sw.got)
	}
	if cs.sock.ReadBytes > cs.consumed && cs.c.InboundBuffered() > 0 && op.M != "peek" {
		w.probes["partial-consumption"]++
	}
	return w.checkInbound(cs, op.M)
}

func (w *World) newOpID() int { w.nextOp++; return w.nextOp }

func outPayload(id, n int) []byte {
	b := make([]byte, n)
	for i := range b {
		b[i] = payloadOut(id, i)
	}
	return b
}

type scriptReader struct {
	data []byte
	segs []int
	i    int
}

func (r *scriptReader) Read(p []byte) (int, error) {
	defer vsched.Restore(vsched.EnterHarness())
	if len(r.data) == 0 {
		return 0, io.EOF
	}
	if len(p) == 0 {
		return 0, nil
	}
	n := len(p)
	if r.i < len(r.segs) && r.segs[r.i] > 0 && r.segs[r.i] < n {
		n = r.segs[r.i]
	}
	r.i++
	n = min(n, len(r.data))
	copy(p, r.data[:n])
	r.data = r.data[n:]
	if len(r.data) == 0 && r.i%2 == 0 {
		return n, io.EOF // data together with EOF
	}
	return n, nil
}

// doWrite performs one write operation from inside a callback.
func (w *World) doWrite(cs *connState, op *WOp, where string) {
	c := cs.c
	if cs.closed && !cs.inOnClose {
		return
	}
	if !cs.inOnClose {
		w.checkOutbound(cs, where)
	}
	switch op.M {
	case "write":
		id := w.newOpID()
		data := outPayload(id, op.N)
		w.inCall[cs.task]++
		n, err := c.Write(data)
		w.inCall[cs.task]--
		for i := range data {
			data[i] = 0x99 // the caller may reuse its buffer at once
		}
		w.logf("conn %d Write op=%d n=%d -> %d %v", cs.idx, id, op.N, n, err != nil)
		w.acceptSync(cs, id, op.N, n, err, "Write")
	case "writev":
		id := w.newOpID()
		total := 0
		for _, s := range op.Segs {
			total += s
		}
		data := outPayload(id, total)
		var bs [][]byte
		off := 0
		for _, s := range op.Segs {
			bs = append(bs, append([]byte(nil), data[off:off+s]...))
			off += s
		}
		w.inCall[cs.task]++
		n, err := c.Writev(bs)
		w.inCall[cs.task]--
		for i, b := range bs {
			// the batch is the application's: still the slices it put there
			if i < len(op.Segs) && len(b) != op.Segs[i] {
				w.violate("C02", "writev-altered-batch", "conn %d: after Writev element %d of the caller's batch has %d bytes, the application had put %d there", cs.idx, i, len(b), op.Segs[i])
				w.violate("C12", "writev-altered-batch", "conn %d: after Writev element %d of the caller's batch has %d bytes, the application had put %d there", cs.idx, i, len(b), op.Segs[i])
				break
			}
		}
		for _, b := range bs {
			for i := range b {
				b[i] = 0x99
			}
		}
		w.logf("conn %d Writev op=%d n=%d segs=%d -> %d %v", cs.idx, id, total, len(bs), n, err != nil)
		if len(bs) > 1024 {
			w.probes["writev>1024-segments"]++
		}
		w.acceptSync(cs, id, total, n, err, "Writev")
	case "readfrom":
		id := w.newOpID()
		data := outPayload(id, op.N)
		n, err := c.ReadFrom(&scriptReader{data: data, segs: op.Segs})
		w.logf("conn %d ReadFrom op=%d n=%d -> %d %v", cs.idx, id, op.N, n, err != nil)
		if err != nil || int(n) != op.N {
			w.violate("C02", "readfrom-count", "conn %d: ReadFrom of a %d-byte reader returned (%d, %v)", cs.idx, op.N, n, err)
			return
		}
		if cs.inOnClose {
			cs.tail = append(cs.tail, wEntry{id: id, n: op.N})
		} else {
			cs.W = append(cs.W, wEntry{id: id, n: op.N})
			cs.wBytes += op.N
		}
		w.inCall[cs.task]++
		ferr := c.Flush()
		w.inCall[cs.task]--
		w.logf("conn %d Flush -> %v", cs.idx, ferr != nil)
		if ferr != nil {
			// a failing flush closes the connection; what was accepted may be cut short
			cs.failed = &wEntry{}
			cs.peerCause = true
		}
	case "flush":
		w.inCall[cs.task]++
		_ = c.Flush()
		w.inCall[cs.task]--
	case "asyncwrite":
		id := w.newOpID()
		data := outPayload(id, op.N)
		aid := w.newAsync("asyncwrite", cs.idx, -1)
		w.asyncs[aid].execAt = id
		err := c.AsyncWrite(data, func(c gnet.Conn, err error) error {
			defer vsched.Restore(vsched.EnterHarness())
			w.asyncWriteDone(aid, cs, id, op.N, c, err)
			scribble(data) // the operation has taken effect: the buffer is the caller's again
			return nil
		})
		w.asyncIssued(aid, err)
	case "asyncwritev":
		id := w.newOpID()
		total := 0
		for _, s := range op.Segs {
			total += s
		}
		data := outPayload(id, total)
		var bs [][]byte
		off := 0
		for _, s := range op.Segs {
			bs = append(bs, data[off:off+s])
			off += s
		}
		aid := w.newAsync("asyncwritev", cs.idx, -1)
		err := c.AsyncWritev(bs, func(c gnet.Conn, err error) error {
			defer vsched.Restore(vsched.EnterHarness())
			w.asyncWriteDone(aid, cs, id, total, c, err)
			scribble(data)
			return nil
		})
		w.asyncIssued(aid, err)
	}
	w.checkHeld(cs, op.M+" in "+where)
}

func scribble(b []byte) {
	for i := range b {
		b[i] = 0x99
	}
}

// checkHeld: the slice the last Next/Peek returned stays valid until the next
// read-type call on the connection; writes made meanwhile (which draw buffers
// from the same pools) must not change it.
func (w *World) checkHeld(cs *connState, after string) {
	if cs.held == nil && len(cs.peeks) == 0 {
		return
	}
	// the application may use the byte-slice pool itself: whatever it gets there
	// must not be memory a still valid Next/Peek result lives in
	var mine [][]byte
	grab := func(n int) {
		if n > 0 && n <= 1<<20 {
			b := byteslice.Get(n)
			for i := range b {
				b[i] = 0xa5
			}
			mine = append(mine, b)
		}
	}
	if cs.held != nil {
		grab(len(cs.held))
	}
	for _, h := range cs.peeks {
		grab(len(h.b))
	}
	defer func() {
		for _, b := range mine {
			byteslice.Put(b)
		}
	}()
	if cs.held != nil {
		w.checkHeldOne(cs, cs.held, cs.heldOff, cs.heldWhat, after)
	}
	// earlier Peek results: a Peek does not consume, so what it returned stays
	// valid across further Peeks, until a consuming call
	for _, h := range cs.peeks {
		if w.viol["C12"] != nil {
			break
		}
		w.checkHeldOne(cs, h.b, h.off, h.what, after)
	}
}

type heldSlice struct {
	b    []byte
	off  int
	what string
}

func (w *World) checkHeldOne(cs *connState, held []byte, off int, what, after string) {
	w.probes["held-slice-rechecks"]++
	for i, b := range held {
		if b != payloadIn(cs.idx, off+i) {
			w.violate("C01", "held-slice-overwritten", "conn %d: byte %d of the %d-byte slice returned by %s (stream offset %d) changed to 0x%02x after %s, before any consuming read call", cs.idx, i, len(held), what, off, b, after)
			w.violate("C12", "inbound-slice-overwritten", "conn %d: byte %d of the %d-byte slice returned by %s (stream offset %d) changed to 0x%02x after %s, before any consuming read call: its memory was handed to someone else", cs.idx, i, len(held), what, off, b, after)
			cs.held, cs.peeks = nil, nil
			return
		}
	}
}

// acceptSync records the result of a synchronous write operation.
func (w *World) acceptSync(cs *connState, id, want, n int, err error, what string) {
	if err != nil {
		// a failing operation may have put a proper prefix on the wire; the
		// connection must close. Only the first failure can have written
		// anything; a parting write inside OnClose that fails wrote nothing the
		// stream oracle needs to know about (the connection is already down).
		if cs.inOnClose {
			cs.tail = append(cs.tail, wEntry{id: id, n: want}) // any prefix of it may be on the wire
		} else if cs.failed == nil {
			cs.failed = &wEntry{id: id, n: want}
		}
		cs.peerCause = true
		w.probes["sync-write-failed"]++
		return
	}
	if n != want {
		w.violate("C02", "count", "conn %d: %s of %d bytes returned %d without error", cs.idx, what, want, n)
		return
	}
	if cs.inOnClose {
		cs.tail = append(cs.tail, wEntry{id: id, n: want})
		return
	}
	cs.W = append(cs.W, wEntry{id: id, n: want})
	cs.wBytes += want
}

// checkOutbound: OutboundBuffered == accepted - handed to the kernel.
func (w *World) checkOutbound(cs *connState, where string) {
	if cs.closed || cs.failed != nil {
		return
	}
	ob := cs.c.OutboundBuffered()
	kout := cs.sock.WrittenBytes
	if ob != cs.wBytes-kout {
		// the OnOpen reply is written after OnOpen returns
		if where == "OnOpen" {
			return
		}
		w.violate("C02", "outbound-buffered", "conn %d (%s): OutboundBuffered()=%d but %d bytes accepted and %d handed to the kernel", cs.idx, where, ob, cs.wBytes, kout)
	}
}

var errNotCalled = errors.New("callback not invoked")

func fmtErr(err error) string {
	if err == nil {
		return "nil"
	}
	return fmt.Sprint(err)
}

func connFd(cs *connState) int {
	if cs == nil {
		return -1
	}
	return cs.fd
}

// checkUDPOpenReply: what OnOpen returned for a connected UDP socket went out
// as exactly one datagram, before anything else was sent on that socket.
func (w *World) checkUDPOpenReply(cs *connState) {
	if cs.udpOpenReply == nil {
		return
	}
	reply := cs.udpOpenReply
	cs.udpOpenReply = nil
	if w.k.FdFaulted(cs.fd) || w.peers[cs.idx].udpUnreach {
		return
	}
	for i := cs.udpOpenAt; i < len(w.k.UDPSent); i++ {
		if r := w.k.UDPSent[i]; r.Fd == cs.fd {
			if string(r.Payload) != string(reply) {
				w.violate("C08", "client-open-reply", "conn %d (connected udp): OnOpen returned %d bytes, the first datagram sent on its socket has %d bytes (or other content)", cs.idx, len(reply), len(r.Payload))
			}
			return
		}
	}
	w.violate("C08", "client-open-reply", "conn %d (connected udp): OnOpen returned %d bytes, no datagram was sent on its socket", cs.idx, len(reply))
}
