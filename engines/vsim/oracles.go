package vsim

import (
	"fmt"
	"sort"
	"strings"
	"time"
)

func expectedOut(ws []wEntry) []byte {
	n := 0
	for _, e := range ws {
		n += e.n
	}
	out := make([]byte, 0, n)
	for _, e := range ws {
		if e.raw != nil {
			out = append(out, e.raw...)
			continue
		}
		for i := 0; i < e.n; i++ {
			out = append(out, payloadOut(e.id, i))
		}
	}
	return out
}

// checkOutPrefix: what the peer received must be a prefix of the accepted
// operations in effect order (plus a proper prefix of an operation that failed).
func (w *World) checkOutPrefix(cs *connState, complete bool) {
	ps := w.peers[cs.idx]
	// include what is still unread at the harness endpoint
	rx := ps.rx
	if ps.cli != nil && ps.cli.PeerAvail() > 0 && !ps.cli.Closed() {
		rx = append(append([]byte(nil), rx...), ps.cli.PeekAll()...)
	}
	exp := expectedOut(cs.W)
	limit := len(exp)
	// after the accepted operations the stream may continue with a proper
	// prefix of an operation that failed midway, followed by a prefix of the
	// best-effort writes made inside OnClose
	var failed []byte
	if cs.failed != nil && cs.failed.n > 0 {
		failed = expectedOut([]wEntry{*cs.failed})
	}
	tail := expectedOut(cs.tail)
	for i := 0; i < len(rx) && i < limit; i++ {
		if rx[i] != exp[i] {
			// a connection whose output was cut short by a failing system call (the
			// kernel counted a write error on it, or an injected fault touched it) is
			// closed: what the framework still held of the accepted operations is
			// dropped, and only the best-effort writes made inside OnClose may follow
			if len(tail) > 0 && (cs.sock.WriteErrs > 0 || w.faultTouched(cs)) {
				ok := false
				for k := i; k >= 0 && k >= i-8 && !ok; k-- {
					if r2 := rx[k:]; len(r2) <= len(tail) && string(r2) == string(tail[:len(r2)]) {
						ok = true
					}
				}
				if ok {
					w.probes["output-cut-by-error-then-onclose-writes"]++
					return
				}
			}
			op, off := w.locateOut(cs, i)
			w.violate("C02", "content", "conn %d: byte %d of the stream the peer received is %#x, expected %#x (operation #%d offset %d of the accepted sequence)", cs.idx, i, rx[i], exp[i], op, off)
			return
		}
	}
	if len(rx) > limit {
		rest := rx[limit:]
		lcp := 0
		for lcp < len(rest) && lcp < len(failed) && rest[lcp] == failed[lcp] {
			lcp++
		}
		ok := false
		for k := lcp; k >= 0 && !ok; k-- {
			r2 := rest[k:]
			if len(r2) <= len(tail) && string(r2) == string(tail[:len(r2)]) {
				ok = true
			}
		}
		if !ok {
			w.violate("C02", "extra-bytes", "conn %d: peer received %d bytes, %d were accepted by write operations (%d ops); the %d bytes beyond are neither a prefix of the operation that failed (%d bytes) nor of the writes made inside OnClose (%d bytes)", cs.idx, len(rx), limit, len(cs.W), len(rest), len(failed), len(tail))
			return
		}
	}
	if complete && len(rx) < limit {
		w.violate("C02", "stranded", "conn %d: %d bytes were accepted by write operations but the reading peer received only %d after the system went quiet (kernel got %d)", cs.idx, limit, len(rx), cs.sock.WrittenBytes)
	}
}

func (w *World) locateOut(cs *connState, pos int) (int, int) {
	for i, e := range cs.W {
		if pos < e.n {
			return i, pos
		}
		pos -= e.n
	}
	return len(cs.W), pos
}

// drainOracles run at the quiescent point after the workload, with the engine
// still running, fair scheduling and peers reading everything.
func (w *World) drainOracles() {
	// (a client loop that was told to shut down by a callback has exited: requests
	// addressed to it are lost by design of that action)
	healthy := !w.stopRequested && !w.stopEverAsked && !w.runDone && w.probes["client-shutdown-action"] == 0
	for _, cs := range w.conns {
		if cs == nil || !cs.opened || cs.udp {
			continue
		}
		ps := w.peers[cs.idx]
		touched := w.faultTouched(cs) || cs.failed != nil
		if !cs.closed && healthy && !touched {
			// C01 liveness: nothing readable may be left in the kernel
			if q := cs.sock.RcvQueued(); q > 0 || cs.sock.WireLen() > 0 {
				w.violate("C01", "stranded-input", "conn %d: %d bytes sit in the kernel receive queue of an open, registered connection after the system went quiet (delivered so far %d, offered %d)", cs.idx, q, cs.sock.ReadBytes, cs.offered)
			}
			if cs.offered != cs.sock.ReadBytes {
				w.violate("C01", "read-not-offered", "conn %d: the kernel handed over %d bytes but only %d were offered to OnTraffic", cs.idx, cs.sock.ReadBytes, cs.offered)
			}
			if cs.wakesDue != 0 {
				w.violate("C03", "wake-lost", "conn %d: %d accepted Wake request(s) on an open connection produced no OnTraffic", cs.idx, cs.wakesDue)
			}
			complete := ps.cli != nil && !ps.cli.Closed() && !ps.cli.PeerSawFin()
			w.checkOutPrefix(cs, complete)
		} else {
			w.checkOutPrefix(cs, false)
		}
	}
	if healthy {
		w.asyncOracle("drain")
	}
	w.victimOracle()
}

// victimOracle (C18): a connection hit by a non-retryable fault is closed,
// its handler saw exactly one OnClose with an error if it had been opened, and
// its descriptor is released.
func (w *World) victimOracle() {
	if len(w.p.Faults) == 0 {
		return
	}
	for _, ps := range w.peers {
		if !ps.connected {
			continue
		}
		cs := w.conns[ps.idx]
		if cs != nil && cs.udp {
			continue
		}
		if cs != nil && w.faultTouched(cs) {
			if !cs.closed {
				w.violate("C18", "victim-not-closed", "with fault %s: conn %d was hit by the fault but is still open after the system went quiet", faultDesc(w.p.Faults), cs.idx)
			} else if cs.closeErr == nil && !cs.localReq && !w.stopRequested {
				w.violate("C18", "victim-closed-without-error", "with fault %s: conn %d was closed with a nil error", faultDesc(w.p.Faults), cs.idx)
			}
			if w.k.IsOpen(cs.fd) && w.k.FdGen(cs.fd) == cs.gen {
				w.violate("C18", "victim-descriptor-not-released", "with fault %s: descriptor %d of conn %d is still open", faultDesc(w.p.Faults), cs.fd, cs.idx)
			}
		}
		if cs == nil && w.k.SockFaulted(ps.srv) && !ps.srv.Closed() {
			w.violate("C18", "victim-descriptor-not-released", "with fault %s: the connection of peer %d failed before it was opened but its descriptor is still open", faultDesc(w.p.Faults), ps.idx)
		}
	}
}

// asyncOracle: every accepted asynchronous request ran exactly once.
func (w *World) asyncOracle(where string) {
	type key struct {
		user int
		task string
	}
	last := map[key]int{}
	for _, r := range w.asyncs {
		if !r.issued || r.err != nil || r.cbCount < 0 {
			continue
		}
		if r.cbCount == 0 {
			w.violate("C03", "lost/"+r.kind, "%s request %d on conn %d was accepted without error but never carried out (%s, engine still running)", r.kind, r.id, r.conn, where)
			continue
		}
		if r.user >= 0 && (r.kind == "asyncwrite" || r.kind == "asyncwritev") {
			// w.asyncs is in issue order: the execution stamps of one goroutine's
			// writes on one loop must increase along it
			k := key{r.user, r.cbTask}
			if r.execSeq < last[k] {
				w.violate("C03", "order", "user %d: asynchronous write #%d (request %d) on loop %s was carried out before one the same goroutine had issued earlier", r.user, r.seq, r.id, r.cbTask)
				w.violate("C02", "async-order", "user %d: asynchronous write #%d (request %d) on loop %s took effect before one the same goroutine had issued earlier", r.user, r.seq, r.id, r.cbTask)
			}
			last[k] = max(last[k], r.execSeq)
		}
	}
}

func (w *World) finalOracles() {
	// C07: the kernel's ledger is exact
	for _, ev := range w.k.Ledger {
		key := ev.Kind + "/" + ev.Call
		if ev.Kind == "foreign-descriptor" && ev.Call == "write" && ev.Was == "eventfd" {
			// the wake-up write of Poller.Trigger after the poller was closed, the number
			// re-used meanwhile: the known use-after-close/write finding with a new owner
			key += "-after-eventfd"
		}
		w.violate("C07", key, "%s (task %s)", ev.Msg, ev.Task)
		break
	}
	for _, cs := range w.conns {
		if cs != nil && cs.udp && !cs.closed {
			w.checkUDPOpenReply(cs)
		}
		if cs == nil || cs.udp {
			continue
		}
		w.checkOutPrefix(cs, false)
		// C05: I/O on a connection's descriptor comes from its loop's task
		for _, u := range w.k.Uses[cs.fd] {
			if u.Gen != cs.gen || cs.task == "" {
				continue
			}
			switch u.Call {
			case "read", "write", "writev", "epoll_ctl_add", "epoll_ctl_mod", "epoll_ctl_del", "close":
				if u.Task != cs.task {
					w.violate("C05", "io-off-loop/"+u.Call, "conn %d: %s on its descriptor %d was issued by task %s, the connection belongs to %s", cs.idx, u.Call, cs.fd, u.Task, cs.task)
				}
			}
		}
	}
	for _, l := range w.regLost {
		// accepted without error, but no result ever arrived
		key := "register-no-result"
		if w.runDone {
			key = "register-no-result/engine-stopped"
		}
		w.violate("C19", key, "%s was accepted without error but its result channel never delivered anything (Run returned: %v)", l, w.runDone)
		break
	}
	// a Stop with a context that never ends must come back once the engine is down
	if w.stopCallsPending > 0 && w.runDone && w.postRounds > 2 {
		w.violate("C19", "stop-never-returns", "Run has returned (simulated seconds ago: %.1f) but %d Stop call(s) with a context that has not ended are still waiting", time.Since(w.runDoneAt).Seconds(), w.stopCallsPending)
	}
	// descriptors handed to the application stay open and untouched
	for _, fd := range w.userFds {
		if !w.k.IsOpen(fd) || w.k.Owner(fd) != "user" {
			w.violate("C07", "user-descriptor-closed", "descriptor %d handed out by Dup/DupListener is no longer open at the end of the run", fd)
		}
	}
	stopWanted := w.stopRequested || w.stopEverAsked
	if w.runDone {
		if w.runErr != nil && stopWanted && !w.startFault() {
			w.violate("C06", "run-error", "Run returned %v after an orderly shutdown request", w.runErr)
		}
		for _, cs := range w.conns {
			if cs != nil && cs.opened && !cs.closed {
				w.violate("C06", "no-onclose", "conn %d was opened but Run returned without its OnClose", cs.idx)
				w.violate("C04", "no-onclose", "conn %d was opened but never saw OnClose although the engine has stopped", cs.idx)
			}
		}
		if w.p.Stop.Source != "boot" && w.booted && w.shutdownCount != 1 {
			w.violate("C06", "onshutdown-count", "OnShutdown was invoked %d times", w.shutdownCount)
		}
		// C07: everything the framework created is closed
		if left := w.k.OpenFds("framework"); len(left) > 0 {
			// classify: a socket whose registration was still queued when its loop
			// exited (never opened) is a different finding from any other descriptor
			// left open; among those, accepted sockets and duplicates made by
			// Register/Enroll are told apart, and a duplicate left behind by a call
			// that *answered* (with an error) is not explained by a lost registration
			kinds, class := "", map[string]bool{}
			dupNever := 0
			for _, fd := range left {
				kd := w.k.KindOf(fd)
				kinds += fmt.Sprintf(" %d(%s,%s)", fd, kd, w.k.OriginOf(fd))
				c := kd
				if kd == "stream" {
					c = "accepted-never-opened"
					if w.k.OriginOf(fd) == "dup" {
						c = "dup-never-opened"
						dupNever++
					}
					for _, cs := range w.conns {
						if cs != nil && cs.sock == w.k.SockOfFd(fd) {
							c = "stream-opened"
							if w.k.OriginOf(fd) == "dup" {
								dupNever--
							}
						}
					}
				}
				if kd == "udp" && w.k.OriginOf(fd) == "dup" {
					// the duplicate of a connected UDP socket handed to Register/Enroll
					c = "dup-never-opened"
					dupNever++
					for _, cs := range w.conns {
						if cs != nil && cs.udp && cs.fd == fd && cs.gen == w.k.FdGen(fd) {
							c = "udp-opened"
							dupNever--
						}
					}
				}
				class[c] = true
			}
			if lost := len(w.regLost) + w.clientCalls; dupNever > lost {
				delete(class, "dup-never-opened")
				class["dup-after-answer"] = true
				kinds += fmt.Sprintf(" (%d duplicates never opened, %d registration calls without an answer)", dupNever, lost)
			}
			if class["accepted-never-opened"] && class["dup-never-opened"] {
				// one root cause (registration queued for a loop that has exited): one key
				delete(class, "dup-never-opened")
			}
			var cl []string
			for c := range class {
				cl = append(cl, c)
			}
			sort.Strings(cl)
			// (a registration queued for a loop that exits is the same finding whether the
			// loop exits because of a shutdown or because the engine failed to start)
			if k := strings.Join(cl, "+"); w.startFault() && k != "accepted-never-opened" && k != "dup-never-opened" {
				w.violate("C07", "leak-after-failed-start/"+strings.Join(cl, "+"), "Run returned %v (injected: %s) but the framework still holds descriptors:%s", w.runErr, faultDesc(w.p.Faults), kinds)
			} else {
				w.violate("C07", "leak/"+strings.Join(cl, "+"), "Run returned but the framework still holds descriptors:%s", kinds)
			}
		}
		if w.multi() && w.p.Cfg.Listeners == 3 && w.k.UnixPathExists("/tmp/verif-sim-second.sock") {
			w.violate("C07", "unix-path", "Rotate returned but the unix-socket file of its second listener still exists")
		}
		if w.p.Cfg.Network == "unix" && w.k.UnixPathExists(w.p.Cfg.Host) {
			w.violate("C07", "unix-path", "Run returned but the unix-socket file %s still exists", w.p.Cfg.Host)
		}
		// asynchronous requests accepted before the stop request must not be executed twice; lost ones are legal now
	} else if stopWanted && w.viol["C06"] == nil && w.ph != phDone && w.s.StopWhy() != "step-cap" && w.s.StopWhy() != "panic" {
		w.violate("C06", "hang", "shutdown was requested but Run did not return; alive: %v", w.s.Alive())
		w.stopCtxHang()
	}
	// sanity of the harness itself
	names := []string{}
	for k, v := range w.loopTasks {
		if v != 0 {
			names = append(names, k)
		}
	}
	sort.Strings(names)
	if len(names) > 0 && w.viol[w.prop] == nil {
		w.logf("callbacks still in flight at the end: %v", names)
	}
}

// startFault: an injected failure of a descriptor-creating call fired before
// the engine had booted completely and Run returned an error.
func (w *World) startFault() bool {
	if w.runErr == nil {
		return false
	}
	for k, v := range w.k.FaultsFired {
		if v > 0 {
			for _, p := range []string{"socket:", "bind:", "listen:", "epoll_create:", "eventfd:", "epoll_ctl_add:", "setsockopt:"} {
				if strings.HasPrefix(k, p) {
					return true
				}
			}
		}
	}
	return false
}

// stopCtxHang: a Stop whose context had ended returned the context's error, and
// the engine never shut down afterwards: the context's end cancelled (or
// prevented) the shutdown, which C19 rules out.
func (w *World) stopCtxHang() {
	if w.stopCtxErrSeen {
		w.violate("C19", "stop-ctx-error-without-shutdown", "Stop returned the error of its ended context, and the engine never shut down afterwards (OnShutdown calls: %d, Run returned: %v)", w.shutdownCount, w.runDone)
	}
}
