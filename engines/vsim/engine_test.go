package vsim

import (
	"encoding/json"
	"testing"

	"verif/sim/runner"
)

type eng struct{ t *testing.T }

func (e eng) Generate(seed uint64, prop, tier string) any {
	if prop == "C08" && seed%6 == 1 {
		// connected UDP sockets (Client.Dial / Client.Enroll): boundaries and one Write, one datagram
		return GenerateClient(seed, prop, tier)
	}
	if prop == "C19" && seed%6 == 4 {
		// the control API on an engine whose listeners are all UDP (no acceptor, loop 0 owns
		// the listener table): the same answers, in particular once the shutdown has completed
		p := GenerateUDP(seed, tier)
		r := runner.NewRand(seed ^ 0xc19)
		for u := r.Range(1, 2); u > 0; u-- {
			var up UserPlan
			for j := r.Range(1, 4); j > 0; j-- {
				k := []string{"validate", "countx", "dup", "duplistener", "register-none", "pause"}[r.Intn(6)]
				up.Ops = append(up.Ops, UserOp{K: k, N: r.Range(1, 20)})
			}
			up.Ops = append(up.Ops, UserOp{K: "await-stop"})
			for j := r.Range(1, 4); j > 0; j-- {
				k := []string{"validate", "countx", "dup", "duplistener", "register-none", "stopctx", "stopctx"}[r.Intn(7)]
				up.Ops = append(up.Ops, UserOp{K: k, N: r.Intn(3)})
			}
			p.Users = append(p.Users, up)
		}
		return p
	}
	if prop == "C08" || (prop == "C17" || prop == "C06" || prop == "C05") && seed%7 == 0 {
		return GenerateUDP(seed, tier)
	}
	switch prop {
	case "C01", "C02", "C03", "C04", "C05", "C06", "C07":
		if seed%6 == 1 {
			return GenerateClient(seed, prop, tier)
		}
	}
	if prop == "C18" {
		if seed%4 == 3 {
			return GenerateC18Random(seed, tier)
		}
		if seed%4 == 2 && seed%8 == 2 {
			return GenerateC18UDP(seed, tier)
		}
		return GenerateC18(seed, tier)
	}
	return Generate(seed, prop, tier)
}
func (e eng) Execute(plan any, prop string) runner.Outcome {
	p := plan.(*Plan)
	if p.Enum {
		return enumerate(e.t, p, prop)
	}
	return Execute(e.t, p, prop)
}
func (e eng) Shrink(plan any) []any { return Shrink(plan.(*Plan)) }
func (e eng) WithSchedule(plan any, decisions []string) any {
	q := clonePlan(plan.(*Plan))
	q.Sched = append([]string(nil), decisions...)
	return q
}
func (e eng) ScheduleLen(plan any) int { return len(plan.(*Plan).Sched) }
func (e eng) Decode(raw json.RawMessage) (any, error) {
	var p Plan
	err := json.Unmarshal(raw, &p)
	return &p, err
}

func TestEngine(t *testing.T) {
	if err := runner.Main("vsim", eng{t}); err != nil {
		t.Fatal(err)
	}
}
