package vsim

import (
	"fmt"
	"net"
	"sort"

	gnet "github.com/panjf2000/gnet/v2"
	"golang.org/x/sys/unix"

	"verif/sim/runner"
	"verif/sim/vnet"
	"verif/sim/vsched"
	"verif/sim/vsys"
)

// runClient is the body of the "run" task when the plan drives a gnet.Client
// instead of a listening engine: NewClient, Start, (users dial/enroll), Stop.
func (w *World) runClient() {
	cli, err := gnet.NewClient(&handler{w}, w.options()...)
	if err != nil {
		w.violate("HARNESS", "newclient", "NewClient: %v", err)
		w.runDone = true
		return
	}
	if err := cli.Start(); err != nil {
		w.runDone, w.runErr, w.runDoneStep = true, err, w.s.Step()
		w.logf("Client.Start returned err=%v", err)
		if !w.startFault() {
			w.violate("HARNESS", "client-start", "Client.Start: %v", err)
		}
		return
	}
	w.cli = cli
	vsched.Release(&w.pubEng)
	w.logf("client started")
	vsched.Block("client:wait-stop", func() bool { return w.clientStop })
	w.logf("client stop called at step %d", w.s.Step())
	err = cli.Stop()
	vsched.Yield("post-block")
	w.runDone, w.runErr, w.runDoneStep = true, err, w.s.Step()
	w.logf("run returned err=%v", err)
}

// userClientDial: Client.Dial (the framework dials through vnet) or
// Client.Enroll (the application hands over its own connection).
func (w *World) userClientDial(ui int, op *UserOp) {
	idx := op.Conn
	if idx >= len(w.peers) || !w.peers[idx].cp.Dial || w.peers[idx].dialAsked {
		return
	}
	vsched.Block("user:wait-client", func() bool { return w.cli != nil || w.runDone })
	if w.cli == nil || w.clientStop || w.stopRequested {
		return
	}
	ps := w.peers[idx]
	ps.dialAsked = true
	vsched.Acquire(&w.pubEng)
	w.clientCalls++
	defer func() { w.clientCalls-- }()
	var c gnet.Conn
	var err error
	network := "tcp"
	switch {
	case ps.cp.UDP:
		network = "udp"
	case w.p.Cfg.Network == "unix":
		network = "unix"
	}
	if op.K == "cdial" {
		w.dialQueue = append(w.dialQueue, idx)
		c, err = w.cli.Dial(network, w.dialAddr(idx).String())
	} else {
		nc, derr := w.makeDialled(idx, network)
		if derr != nil {
			return
		}
		c, err = w.cli.Enroll(nc)
	}
	vsched.Yield("post-block")
	w.logf("user%d %s conn=%d -> conn=%v err=%v", ui, op.K, idx, c != nil, err)
	w.probes["client-dials"]++
	if err != nil {
		ps.done, ps.refused = true, true
		if !w.clientStop {
			w.violate("C19", "client-dial-refused", "Client.%s on a started client returned %v", map[string]string{"cdial": "Dial", "cenroll": "Enroll"}[op.K], err)
		}
		return
	}
	cs := w.byConn[c]
	if cs == nil || !cs.opened {
		w.violate("C03", "client-dial-unopened", "Client dial/enroll for conn %d returned a connection that never had OnOpen", idx)
	}
}

// makeDialledUDP creates the application's connected UDP socket.
func (w *World) makeDialledUDP(idx int) (net.Conn, error) {
	ps := w.peers[idx]
	local := &unix.SockaddrInet4{Port: 52000 + idx, Addr: [4]byte{127, 0, 0, 1}}
	remote := &unix.SockaddrInet4{Port: 5300 + idx, Addr: [4]byte{192, 0, 2, byte(idx)}}
	fd := w.k.HarnessUDP(local, remote)
	ps.connected = true
	ps.udpKey = "client-" + vsys.AddrKey("udp", local)
	ps.udpRemote = remote
	ps.dialFd = fd
	w.logf("peer%d udp dialled app-fd=%d", idx, fd)
	return vnet.NewUDPConn(fd, &net.UDPAddr{IP: net.IPv4(127, 0, 0, 1), Port: 52000 + idx}, &net.UDPAddr{IP: net.IPv4(192, 0, 2, byte(idx)), Port: 5300 + idx}), nil
}

// onOpenUDPClient / onTrafficUDPClient: a connected UDP socket of a client.
func (w *World) udpClientTraffic(cs *connState) gnet.Action {
	c := cs.c
	ps := w.peers[cs.idx]
	// the datagram this loop's last recvfrom returned
	w.checkUDPOpenReply(cs)
	var rec *vsys.UDPRecvRec
	for i := len(w.k.UDPRecv) - 1; i >= 0; i-- {
		if w.k.UDPRecv[i].Fd == cs.fd {
			if i+1 > ps.udpSeen {
				rec = &w.k.UDPRecv[i]
				ps.udpSeen = i + 1
			}
			break
		}
	}
	if rec == nil && ps.udpEmpty {
		return gnet.None
	}
	if rec == nil && cs.wakesDue > 0 {
		// no datagram: the OnTraffic of an accepted Wake
		cs.wakesDue--
		w.probes["wake-traffic"]++
		return gnet.None
	}
	if rec == nil {
		w.violate("C08", "client-traffic-without-datagram", "conn %d (udp client): OnTraffic without a new datagram", cs.idx)
		return gnet.None
	}
	size := ps.udpSizes[rec.ID]
	want := min(size, w.udp.readBuf)
	if b := c.InboundBuffered(); b != want {
		w.violate("C08", "client-boundary", "conn %d (udp client): datagram of %d bytes, InboundBuffered()=%d", cs.idx, size, b)
		return gnet.None
	}
	buf, _ := c.Next(-1)
	for i, b := range buf {
		if b != dgramByte(rec.ID, i) {
			w.violate("C08", "client-content", "conn %d (udp client): byte %d of the datagram is wrong", cs.idx, i)
			break
		}
	}
	w.probes["udp-client-datagrams"]++
	if cs.nTraffic < len(cs.cp.Traffic) {
		for _, op := range cs.cp.Traffic[cs.nTraffic].W {
			if op.M != "write" {
				continue
			}
			id := w.newOpID()
			data := outPayload(id, op.N)
			before := len(w.k.UDPSent)
			n, err := c.Write(data)
			if ps.udpUnreach {
				// the datagram goes nowhere; a later write may report the pending ICMP error
				continue
			}
			if err != nil || n != op.N {
				w.violate("C08", "client-write", "conn %d (udp client): Write of %d bytes returned (%d, %v)", cs.idx, op.N, n, err)
				continue
			}
			var mine []int // (other loops send on their own sockets meanwhile)
			for i := before; i < len(w.k.UDPSent); i++ {
				if w.k.UDPSent[i].Fd == cs.fd {
					mine = append(mine, i)
				}
			}
			if len(mine) != 1 || string(w.k.UDPSent[mine[0]].Payload) != string(data) {
				w.violate("C08", "client-reply", "conn %d (udp client): Write of %d bytes did not result in exactly one datagram with those bytes on its socket", cs.idx, op.N)
			}
		}
	}
	cs.nTraffic++
	return gnet.None
}

// GenerateClient builds a plan that drives a gnet.Client.
func GenerateClient(seed uint64, prop, tier string) *Plan {
	r := runner.NewRand(seed)
	p := &Plan{Seed: r.U64()}
	c := &p.Cfg
	c.Client = true
	c.Network = []string{"tcp", "tcp", "unix"}[r.Intn(3)]
	if prop == "C08" {
		c.Network = "tcp"
	}
	c.Host = "127.0.0.1"
	c.Loops = r.Pick(1, 1, 2, 3)
	switch r.Intn(4) {
	case 0:
		c.ET = true
	case 1:
		c.ET = true
		c.Chunk = r.Pick(1024, 4096)
	}
	c.ReadBuf = r.Pick(0, 1024, 2048, 4096)
	c.WriteBuf = r.Pick(0, 1024, 4096)
	rb := c.ReadBuf
	if rb == 0 {
		rb = 65536
	}
	wb := c.WriteBuf
	if wb == 0 {
		wb = 65536
	}
	c.SndBuf = r.Pick(0, 0, 4096, 65536)
	c.RcvBuf = r.Pick(0, 1024, 65536)
	c.Ticker = r.Chance(1, 5)
	c.TickMs = 10
	if c.Ticker && r.Chance(1, 2) {
		for n := r.Range(1, 4); n > 0; n-- {
			c.TickAt = append(c.TickAt, r.Pick(3, 10, 30, 60, 150))
		}
		sort.Ints(c.TickAt)
	}
	c.Strategy = []string{"random", "random", "pct", "starve"}[r.Intn(4)]
	c.Quantum = r.Pick(1, 1, 3, 10)
	c.PCTDepth = r.Range(1, 3)
	c.CanaryPct = r.Pick(0, 0, 100)
	if r.Chance(1, 2) {
		c.OffSites = []string{"atomic:"}
	}
	n := r.Range(1, 5)
	var up []UserPlan
	nu := r.Range(1, 2)
	shutdownAct := r.Chance(1, 8)
	if shutdownAct {
		nu = 1 // nothing is dialled after the loop of the last connection has exited
	}
	late := map[int][]UserOp{}
	for u := 0; u < nu; u++ {
		up = append(up, UserPlan{})
	}
	for i := 0; i < n; i++ {
		cp := ConnPlan{Dial: true}
		if c.Network != "unix" && (r.Chance(1, 4) || prop == "C08") {
			cp.UDP = true
			if r.Chance(1, 3) {
				cp.OpenReply = r.Pick(1, 100, 1400)
			}
			for j := r.Range(1, 4); j > 0; j-- {
				cp.Peer = append(cp.Peer, PeerOp{K: "send", N: r.Pick(0, 1, 100, rb, rb+1, 1400)})
				cp.Traffic = append(cp.Traffic, TStep{W: genUDPReplies(r)})
			}
			if r.Chance(1, 3) {
				// the remote port disappears, one more datagram arrives (sent before),
				// the client's reply to it is answered by ICMP
				cp.Peer = append(cp.Peer, PeerOp{K: "unreach"}, PeerOp{K: "send", N: r.Pick(1, 100)})
				cp.Traffic = append(cp.Traffic, TStep{W: []WOp{{M: "write", N: r.Pick(1, 100)}}})
			}
		} else {
			if r.Chance(1, 3) {
				cp.OpenReply = r.Pick(1, 100, wb, 3*wb)
			}
			for j := r.Range(1, 5); j > 0; j-- {
				switch r.Intn(4) {
				case 0, 1:
					sz := pickSize(r, rb)
					cp.Peer = append(cp.Peer, PeerOp{K: "send", N: sz, Segs: genSegs(r, sz, rb)})
				case 2:
					cp.Peer = append(cp.Peer, PeerOp{K: "recv", N: r.Pick(1, 100, 5000)})
				default:
					cp.Peer = append(cp.Peer, PeerOp{K: "pause", N: r.Range(1, 20)})
				}
			}
			if r.Chance(1, 3) {
				cp.Peer = append(cp.Peer, PeerOp{K: []string{"close", "close", "abort", "shutw"}[r.Intn(4)]})
			}
			for j := r.Range(0, 4); j > 0; j-- {
				st := TStep{R: genROps(r, rb), W: genWOps(r, wb, false)}
				if r.Chance(1, 10) {
					st.Act = 1
				}
				cp.Traffic = append(cp.Traffic, st)
			}
		}
		if shutdownAct && i == n-1 {
			// a callback of the last connection asks for the shutdown: its loop exits
			// (closing its connections); Client.Stop still has to stop the rest, call
			// OnShutdown once and return
			switch r.Intn(3) {
			case 0:
				cp.OpenAct = 2
			case 1:
				cp.CloseAct = 2
				if !cp.UDP && len(cp.Peer) > 0 && cp.Peer[len(cp.Peer)-1].K != "close" {
					cp.Peer = append(cp.Peer, PeerOp{K: "close"})
				}
			default:
				if len(cp.Traffic) > 0 {
					cp.Traffic[len(cp.Traffic)-1].Act = 2
				} else {
					cp.OpenAct = 2
				}
			}
		}
		p.Conns = append(p.Conns, cp)
		u := r.Intn(nu)
		if r.Chance(1, 3) {
			up[u].Ops = append(up[u].Ops, UserOp{K: "pause", N: r.Range(1, 30)})
		}
		up[u].Ops = append(up[u].Ops, UserOp{K: []string{"cdial", "cenroll"}[r.Intn(2)], Conn: i})
		// requests kept from an earlier connection of this user that has been closed
		// meanwhile: the new connection may have taken its descriptor number
		up[u].Ops = append(up[u].Ops, late[u]...)
		late[u] = nil
		if r.Chance(1, 3) {
			up[u].Ops = append(up[u].Ops, UserOp{K: []string{"asyncwrite", "wake", "closecb", "execute"}[r.Intn(4)], Conn: i, N: r.Pick(1, 1000, wb)})
		}
		if r.Chance(1, 4) {
			up[u].Ops = append(up[u].Ops, UserOp{K: "closecb", Conn: i})
			for k := r.Range(1, 2); k > 0; k-- {
				late[u] = append(late[u], UserOp{K: []string{"wake", "close", "closecb", "asyncwrite"}[r.Intn(4)], Conn: i, N: 1, Late: true})
			}
		}
	}
	for u := range up {
		up[u].Ops = append(up[u].Ops, late[u]...)
	}
	p.Users = up
	p.Stop.Source = "client.Stop"
	addStartFault(r, p, prop)
	return p
}

func genUDPReplies(r *runner.Rand) []WOp {
	var ops []WOp
	for k := r.Range(0, 2); k > 0; k-- {
		ops = append(ops, WOp{M: "write", N: r.Pick(0, 1, 100, 1400)})
	}
	return ops
}

var _ = fmt.Sprint
