package vsim

import (
	"context"
	"errors"
	"fmt"
	"net"
	"time"

	gnet "github.com/panjf2000/gnet/v2"
	errorx "github.com/panjf2000/gnet/v2/pkg/errors"
	"golang.org/x/sys/unix"

	"verif/sim/vnet"
	"verif/sim/vsched"
	"verif/sim/vsys"
)

// engine states as the harness can know them
const (
	stEmpty   = "never-started"
	stRunning = "running"
	stWindow  = "stopping"
	stStopped = "stopped"
	stBooting = "booting"
)

func (w *World) engState() string {
	switch {
	case !w.booted:
		return stEmpty
	case w.runDone:
		return stStopped
	case w.stopRequested || w.shutdownCount > 0 || w.stopEverAsked:
		return stWindow
	}
	// between OnBoot and the moment Run has created and started the loops the
	// handle exists but the engine is still being assembled
	if st, _, _ := w.s.TaskState("run"); st != "goblocked" && !w.started {
		return stBooting
	}
	w.started = true
	return stRunning
}

// handle returns the Engine value a control call uses: the zero value until
// OnBoot has handed out the real one.
func (w *World) handle() gnet.Engine {
	vsched.Acquire(&w.pubEng)
	if w.booted {
		return w.eng
	}
	return gnet.Engine{}
}

// ctl runs one control call and checks its answer against the state model.
// A call that overlaps a state change may answer as either neighbour state.
func (w *World) ctl(name string, call func(e gnet.Engine) (res any, err error), check func(state string, res any, err error) string) {
	before := w.engState()
	res, err := call(w.handle())
	after := w.engState()
	w.logf("ctl %s in %s..%s -> %v err=%v", name, before, after, res, err)
	w.probes["control-calls"]++
	if before != after || before == stWindow {
		w.probes["control-calls-in-window"]++
	}
	var msgs []string
	// every state the engine passed through while the call was in flight is a
	// legal vantage point; booting answers as never-started or running, the
	// stopping window as running or stopped (and may fail with any error)
	order := map[string]int{stEmpty: 0, stBooting: 1, stRunning: 2, stWindow: 3, stStopped: 4}
	lo, hi := order[before], order[after]
	if hi < lo {
		// a refused stop request makes the observed state step back
		lo, hi = hi, lo
	}
	if before == stEmpty {
		hi = lo // the handle used was the zero value taken before boot
	}
	set := map[string]bool{}
	for _, st := range []string{stEmpty, stBooting, stRunning, stWindow, stStopped} {
		if order[st] < lo || order[st] > hi {
			continue
		}
		switch st {
		case stBooting:
			set[stEmpty], set[stRunning] = true, true
		case stWindow:
			if err != nil {
				return
			}
			set[stRunning], set[stStopped] = true, true
		default:
			set[st] = true
		}
	}
	var states []string
	for _, st := range []string{stEmpty, stRunning, stStopped} {
		if set[st] {
			states = append(states, st)
		}
	}
	for _, st := range states {
		m := check(st, res, err)
		if m == "" {
			return
		}
		msgs = append(msgs, st+": "+m)
	}
	w.violate("C19", "answer/"+name, "%s called in state %s..%s returned (%v, %v); not a legal answer: %v", name, before, after, res, err, msgs)
}

func wantErr(err, want error) string {
	if !errors.Is(err, want) {
		return fmt.Sprintf("want error %q", want)
	}
	return ""
}

func (w *World) userControl(ui int, op *UserOp) {
	switch op.K {
	case "validate":
		w.ctl("Validate", func(e gnet.Engine) (any, error) { return nil, e.Validate() }, func(st string, _ any, err error) string {
			switch st {
			case stEmpty:
				return wantErr(err, errorx.ErrEmptyEngine)
			case stRunning:
				if err != nil {
					return "want nil"
				}
			case stStopped:
				return wantErr(err, errorx.ErrEngineInShutdown)
			}
			return ""
		})
	case "countx":
		w.ctl("CountConnections", func(e gnet.Engine) (any, error) { return e.CountConnections(), nil }, func(st string, res any, _ error) string {
			n := res.(int)
			switch st {
			case stEmpty, stStopped:
				if n != -1 {
					return "want -1"
				}
			case stRunning:
				if n < 0 {
					return "want a count >= 0"
				}
			}
			return ""
		})
	case "dup", "duplistener", "duplistener-bad":
		name := map[string]string{"dup": "Dup", "duplistener": "DupListener", "duplistener-bad": "DupListener(wrong address)"}[op.K]
		w.ctl(name, func(e gnet.Engine) (any, error) {
			var fd int
			var err error
			switch op.K {
			case "dup":
				fd, err = e.Dup()
			case "duplistener":
				fd, err = e.DupListener(w.lnNetwork(), w.lnAddress())
			default:
				fd, err = e.DupListener("tcp", "203.0.113.9:1")
			}
			if err == nil && fd >= 0 {
				w.k.Transfer(fd, vsys.OwnUser)
				w.userFds = append(w.userFds, fd)
				w.probes["dup-handed-out"]++
			}
			return fd, err
		}, func(st string, res any, err error) string {
			fd := res.(int)
			switch st {
			case stEmpty:
				return wantErr(err, errorx.ErrEmptyEngine)
			case stStopped:
				return wantErr(err, errorx.ErrEngineInShutdown)
			case stRunning:
				if op.K == "duplistener-bad" {
					return wantErr(err, errorx.ErrInvalidNetworkAddress)
				}
				if op.K == "dup" && w.multi() {
					// Dup is documented as unsupported with more than one listener
					return wantErr(err, errorx.ErrUnsupportedOp)
				}
				if err != nil && w.k.FaultsFired["fcntl_dupfd:EMFILE"] > 0 && errors.Is(err, unix.EMFILE) {
					return "" // the injected failure of the duplication itself
				}
				if err != nil || fd < 0 {
					return "want a descriptor"
				}
			}
			if err == nil && fd < 0 {
				return "nil error with a negative descriptor"
			}
			return ""
		})
	case "register-none":
		w.ctl("Register(no target)", func(e gnet.Engine) (any, error) {
			ch, err := e.Register(context.Background())
			return ch != nil, err
		}, func(st string, res any, err error) string {
			switch st {
			case stEmpty:
				return wantErr(err, errorx.ErrEmptyEngine)
			case stStopped:
				return wantErr(err, errorx.ErrEngineInShutdown)
			case stRunning:
				return wantErr(err, errorx.ErrInvalidNetworkAddress)
			}
			return ""
		})
	case "loop-misuse":
		// the EventLoop of a connection the application knows: calls without a
		// target must be refused with their own errors while the engine runs and
		// with the in-shutdown error afterwards; Schedule is not supported at all.
		// One call per judgement: the engine may change state between two calls.
		if w.loopOf == nil {
			return
		}
		vsched.Acquire(&w.loopOfConn.pub) // the application got the EventLoop inside that connection's OnOpen
		el := w.loopOf
		w.probes["eventloop-api-without-target"]++
		one := func(name string, call func() error, running error) {
			w.ctl("EventLoop."+name+" without a target", func(gnet.Engine) (any, error) { return nil, call() },
				func(st string, _ any, err error) string {
					switch st {
					case stStopped:
						return wantErr(err, errorx.ErrEngineInShutdown)
					case stRunning:
						return wantErr(err, running)
					}
					return ""
				})
		}
		one("Register", func() error { _, e := el.Register(context.Background(), nil); return e }, errorx.ErrInvalidNetworkAddress)
		one("Enroll", func() error { _, e := el.Enroll(context.Background(), nil); return e }, errorx.ErrInvalidNetConn)
		one("Execute", func() error { return el.Execute(context.Background(), nil) }, errorx.ErrNilRunnable)
		if e := el.Schedule(context.Background(), nil, time.Second); !errors.Is(e, errorx.ErrUnsupportedOp) {
			w.violate("C19", "answer/EventLoop.Schedule", "Schedule returned %v, want the unsupported-operation error", e)
		}
	case "stopctx":
		w.userStopCtx(ui, op.N)
	}
}

func (w *World) lnNetwork() string {
	switch w.p.Cfg.Network {
	case "tcp6":
		return "tcp"
	case "udp6", "udp4":
		return "udp"
	}
	return w.p.Cfg.Network
}

func (w *World) lnAddress() string {
	if w.p.Cfg.Network == "unix" {
		return w.p.Cfg.Host
	}
	return fmt.Sprintf("%s:9000", w.p.Cfg.Host)
}

// userStopCtx calls Engine.Stop with a live (0), already expired (1) or
// expiring (2) context and checks its contract.
func (w *World) userStopCtx(ui, mode int) {
	ctx := context.Background()
	var cancel context.CancelFunc = func() {}
	var deadline time.Time
	switch mode {
	case 1:
		ctx, cancel = context.WithCancel(ctx)
		cancel()
	case 2:
		if ui%2 == 1 {
			// long enough for several of Stop's polling intervals: an engine that is
			// down well before the deadline must be reported as down, not as a timeout
			deadline = time.Now().Add(5 * time.Second)
			ctx, cancel = context.WithDeadline(ctx, deadline)
		} else {
			ctx, cancel = context.WithTimeout(ctx, 120*time.Millisecond)
		}
	}
	defer cancel()
	before := w.engState()
	h := w.handle()
	if before == stRunning || before == stWindow {
		w.stopEverAsked = true
		w.markLocalAll()
	}
	w.stopCallsPending++
	err := h.Stop(ctx)
	w.stopCallsPending--
	vsched.Yield("post-block")
	if err != nil && !deadline.IsZero() && errors.Is(err, context.DeadlineExceeded) && w.runDone && !w.runDoneAt.IsZero() && deadline.Sub(w.runDoneAt) > 2*time.Second {
		w.violate("C19", "stop-timeout-although-down", "Stop returned %v at its 5 s deadline although Run had returned %v before that deadline", err, deadline.Sub(w.runDoneAt))
	}
	after := w.engState()
	w.logf("ctl Stop(mode %d) in %s..%s -> %v", mode, before, after, err)
	w.probes["control-calls"]++
	switch {
	case before == stEmpty:
		if !errors.Is(err, errorx.ErrEmptyEngine) {
			w.violate("C19", "answer/Stop", "Stop on a never-started handle returned %v", err)
		}
	case before == stStopped:
		if !errors.Is(err, errorx.ErrEngineInShutdown) {
			w.violate("C19", "answer/Stop", "Stop after the engine had stopped returned %v", err)
		}
	case err == nil:
		// nil only after the engine has fully shut down
		if w.shutdownCount == 0 && w.p.Stop.Source != "boot" {
			// (an engine that OnBoot shut down never started anything: no OnShutdown)
			w.violate("C19", "stop-nil-early", "Stop returned nil but OnShutdown has not run")
		}
		for _, cs := range w.conns {
			if cs != nil && cs.opened && !cs.closed {
				w.violate("C19", "stop-nil-early", "Stop returned nil while conn %d is still open", cs.idx)
			}
		}
		for _, fd := range w.k.OpenFds(vsys.OwnFramework) {
			if kd := w.k.KindOf(fd); kd == "epoll" || kd == "eventfd" || kd == "listener" {
				w.violate("C19", "stop-nil-early", "Stop returned nil while the framework still holds descriptor %d (%s)", fd, kd)
			}
		}
		w.stopRequested = true
	case errors.Is(err, errorx.ErrEngineInShutdown):
		// raced with the end of a shutdown started elsewhere: legal in the window
		if before == stRunning && after == stRunning {
			w.violate("C19", "answer/Stop", "Stop on a running engine returned %v", err)
		}
	default:
		if mode == 0 || ctx.Err() == nil || !errors.Is(err, ctx.Err()) {
			w.violate("C19", "answer/Stop", "Stop(mode %d) returned %v (context error: %v)", mode, err, ctx.Err())
		}
		// the shutdown goes on regardless: C06 monitors its completion
		w.stopRequested = true
		if before == stRunning {
			w.stopCtxErrSeen = true
		}
	}
}

// ---- dial / register / enroll ------------------------------------------------

func (w *World) installDialHook() {
	vnet.DialHook = func(network, address string) (net.Conn, error) {
		if len(w.dialQueue) == 0 {
			return nil, errors.New("connection refused (no remote scripted)")
		}
		idx := w.dialQueue[0]
		w.dialQueue = w.dialQueue[1:]
		return w.makeDialled(idx, network)
	}
}

// makeDialled creates the application's socket for a Dial connection plan; the
// harness plays the remote server on the other end.
func (w *World) makeDialled(idx int, network string) (net.Conn, error) {
	ps := w.peers[idx]
	if ps.connected {
		return nil, errors.New("already dialled")
	}
	if ps.cp.UDP {
		return w.makeDialledUDP(idx)
	}
	isUnix := network == "unix"
	var local, remote unix.Sockaddr
	var la, ra net.Addr
	if isUnix {
		local, remote = &unix.SockaddrUnix{Name: ""}, &unix.SockaddrUnix{Name: "/tmp/remote.sock"}
		la, ra = &net.UnixAddr{Name: "", Net: "unix"}, &net.UnixAddr{Name: "/tmp/remote.sock", Net: "unix"}
	} else {
		local = &unix.SockaddrInet4{Port: 50000 + idx, Addr: [4]byte{127, 0, 0, 1}}
		rt := w.dialAddr(idx).(*net.TCPAddr)
		r4 := rt.IP.To4()
		remote = &unix.SockaddrInet4{Port: rt.Port, Addr: [4]byte{r4[0], r4[1], r4[2], r4[3]}}
		la = &net.TCPAddr{IP: net.IPv4(127, 0, 0, 1), Port: 50000 + idx}
		ra = rt
	}
	fd, app, remoteEnd := w.k.HarnessPair(isUnix, local, remote)
	ps.connected, ps.cli, ps.srv = true, remoteEnd, app
	ps.dialFd = fd
	w.logf("peer%d dialled app-fd=%d sock=%d", idx, fd, app.ID)
	if len(ps.cp.Peer) == 0 {
		ps.auto = true
	}
	if isUnix {
		return vnet.NewUnixConn(fd, la, ra), nil
	}
	return vnet.NewTCPConn(fd, la, ra), nil
}

func (w *World) dialAddr(idx int) net.Addr {
	if idx < len(w.peers) && w.peers[idx].cp.UDP {
		return &net.UDPAddr{IP: net.IPv4(192, 0, 2, byte(idx)), Port: 5300 + idx}
	}
	if w.p.Cfg.Network == "unix" {
		return &net.UnixAddr{Name: "/tmp/remote.sock", Net: "unix"}
	}
	if j := w.p.Conns[idx].AddrOf - 1; j >= 0 && j < idx && w.p.Cfg.Network == "tcp" {
		// same address (as a string) as the accepted peer j, in the 16-byte form
		// net.IPv4 produces
		return &net.TCPAddr{IP: net.IPv4(10, 0, byte(j>>8), byte(j)), Port: 40000 + j}
	}
	return &net.TCPAddr{IP: net.IPv4(192, 0, 2, byte(idx)), Port: 7000 + idx}
}

// userRegister: Engine.Register with an address (dial inside the framework) or
// with a connection (enroll); exactly one result must arrive.
func (w *World) userRegister(ui int, op *UserOp) {
	idx := op.Conn
	if idx >= len(w.peers) || !w.peers[idx].cp.Dial || w.peers[idx].connected || w.peers[idx].dialAsked {
		return
	}
	if !w.booted {
		vsched.Block("user:wait-boot", func() bool { return w.booted || w.runDone })
	}
	ps := w.peers[idx]
	ps.dialAsked = true
	before := w.engState()
	if before != stRunning {
		// while the engine is still registering its loops the balancer works on a
		// growing list: such a connection says nothing about the policy
		ps.regOutsideRunning = true
	}
	ctx := context.Background()
	var ch <-chan gnet.RegisteredResult
	var err error
	// the per-loop variants: the new connection must live on the loop of the
	// connection whose EventLoop() was used
	var host *connState
	if op.K == "enroll-loop" || op.K == "register-loop" {
		nAcc := 0
		for _, cp := range w.p.Conns {
			if !cp.Dial {
				nAcc++
			}
		}
		if nAcc == 0 {
			return
		}
		host = w.waitConn(op.N%nAcc, false)
		if host == nil || host.closed {
			ps.done = true
			return
		}
		w.probes["register-on-a-given-loop"]++
		ps.regOutsideRunning = true // the balancer is bypassed: nothing to say about the policy
	}
	if op.K == "register" {
		w.dialQueue = append(w.dialQueue, idx)
		ch, err = w.handle().Register(gnet.NewNetAddrContext(ctx, w.dialAddr(idx)))
	} else if op.K == "register-loop" {
		w.dialQueue = append(w.dialQueue, idx)
		ch, err = host.c.EventLoop().Register(ctx, w.dialAddr(idx))
	} else {
		network := "tcp"
		if w.p.Cfg.Network == "unix" {
			network = "unix"
		}
		c, derr := w.makeDialled(idx, network)
		if derr != nil {
			return
		}
		if op.K == "enroll-other" {
			// a connection type the framework has no case for (it still is a
			// syscall.Conn): the call must answer with exactly one error result
			switch v := c.(type) {
			case *vnet.TCPConn:
				c = wrappedTCP{v}
			case *vnet.UnixConn:
				c = wrappedUnix{v}
			case *vnet.UDPConn:
				c = wrappedUDP{v}
			}
			w.probes["enroll-unsupported-type"]++
		}
		if op.K == "enroll-loop" {
			ch, err = host.c.EventLoop().Enroll(ctx, c)
		} else {
			ch, err = w.handle().Register(gnet.NewNetConnContext(ctx, c))
		}
	}
	w.logf("user%d %s conn=%d in %s -> err=%v", ui, op.K, idx, before, err)
	w.probes["register-calls"]++
	if err != nil {
		if before == stRunning && w.engState() == stRunning && w.started {
			w.violate("C19", "register-refused", "%s on a running engine returned %v", op.K, err)
		}
		ps.done, ps.refused = true, true
		return
	}
	// wait for the result without blocking forever in the harness
	var res gnet.RegisteredResult
	var ok, got bool
	vsched.Block("user:wait-register", func() bool {
		if got {
			return true // the condition is evaluated at every decision until the task is picked
		}
		select {
		case res, ok = <-ch:
			got = true
			return true
		default:
			return w.runDone && w.ph >= phPost
		}
	})
	if !got {
		w.regLost = append(w.regLost, fmt.Sprintf("%s for conn %d (accepted in state %s)", op.K, idx, before))
		ps.done = true
		return
	}
	if !ok {
		w.violate("C19", "register-no-result", "%s for conn %d: the result channel was closed without a result", op.K, idx)
		ps.done = true
		return
	}
	var res2 gnet.RegisteredResult
	ok2 := false
	select {
	case res2, ok2 = <-ch:
	default:
		// still open and empty: closing it is the framework's business; a second value would be the violation
	}
	if ok2 {
		w.violate("C19", "register-two-results", "%s for conn %d delivered a second result (%v)", op.K, idx, res2)
	}
	w.logf("user%d %s conn=%d result conn=%v err=%v", ui, op.K, idx, res.Conn != nil, res.Err)
	switch {
	case res.Conn != nil && res.Err != nil:
		w.violate("C19", "register-both", "%s for conn %d delivered a connection and an error (%v)", op.K, idx, res.Err)
	case res.Conn == nil && res.Err == nil:
		w.violate("C19", "register-neither", "%s for conn %d delivered neither a connection nor an error", op.K, idx)
	case res.Conn != nil && op.K == "enroll-other":
		w.violate("C19", "register-unsupported-accepted", "enroll of an unsupported connection type for conn %d delivered a connection", idx)
	case res.Conn != nil:
		w.probes["register-succeeded"]++
		if host != nil {
			if ncs := w.byConn[res.Conn]; ncs != nil && ncs.task != "" && host.task != "" && ncs.task != host.task {
				w.violate("C05", "enrolled-on-other-loop", "%s through the EventLoop of conn %d (loop %s) produced conn %d whose callbacks run on loop %s", op.K, host.idx, host.task, ncs.idx, ncs.task)
				w.violate("C15", "enrolled-on-other-loop", "%s through the EventLoop of conn %d (loop %s) produced conn %d whose callbacks run on loop %s", op.K, host.idx, host.task, ncs.idx, ncs.task)
			}
		}
		cs := w.byConn[res.Conn]
		if (cs == nil || !cs.opened) && !w.stopRequested && !w.runDone && w.engState() == stRunning {
			w.violate("C19", "register-unusable", "%s for conn %d reported success but the connection never had OnOpen", op.K, idx)
		}
	default:
		ps.done, ps.refused = true, true
	}
}

// connection types gnet has no case for (they are syscall.Conn through the
// embedded connection)
type wrappedTCP struct{ *vnet.TCPConn }
type wrappedUDP struct{ *vnet.UDPConn }
type wrappedUnix struct{ *vnet.UnixConn }
