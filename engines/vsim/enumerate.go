package vsim

import (
	"fmt"
	"sort"
	"testing"

	"golang.org/x/sys/unix"

	"verif/sim/runner"
	"verif/sim/vsys"
)

type faultKind struct {
	site   string
	class  string
	errno  unix.Errno
	state  bool
	retry  bool
	ltOnly bool
}

// the realistic errno set per call site of the I/O path (DESIGN.md 2.6)
var faultKinds = []faultKind{
	{"read", "stream", unix.ECONNRESET, true, false, false},
	{"read", "stream", unix.ETIMEDOUT, true, false, false},
	{"read", "stream", unix.ENOBUFS, false, false, false},
	{"read", "stream", unix.EAGAIN, false, true, true},
	{"write", "stream", unix.EPIPE, true, false, false},
	{"write", "stream", unix.ECONNRESET, true, false, false},
	{"write", "stream", unix.ENOBUFS, false, false, false},
	{"write", "stream", unix.EAGAIN, false, true, true},
	{"writev", "stream", unix.EPIPE, true, false, false},
	{"writev", "stream", unix.ENOBUFS, false, false, false},
	{"writev", "stream", unix.EAGAIN, false, true, true},
	{"epoll_ctl_add", "stream", unix.ENOMEM, false, false, false},
	{"epoll_ctl_add", "stream", unix.ENOSPC, false, false, false},
	{"epoll_ctl_mod", "stream", unix.ENOMEM, false, false, false},
	{"epoll_ctl_mod", "stream", unix.ENOENT, false, false, false},
	{"epoll_ctl_del", "stream", unix.ENOENT, false, false, false},
	{"epoll_ctl_del", "stream", unix.ENOMEM, false, false, false},
	{"close", "stream", unix.EINTR, false, false, false},
	{"close", "stream", unix.EIO, false, false, false},
	{"epoll_wait", "epoll", unix.EINTR, false, true, false},
	{"accept", "listener", unix.EINTR, false, true, false},
	{"accept", "listener", unix.ECONNABORTED, false, true, false},
	{"accept", "listener", unix.ECONNRESET, false, true, false},
	{"recvfrom", "udp", unix.ECONNREFUSED, false, true, false},
	{"recvfrom", "udp", unix.ENOBUFS, false, true, false},
	{"recvfrom", "udp", unix.EAGAIN, false, true, false},
	{"sendto", "udp", unix.ECONNREFUSED, false, true, false},
	{"sendto", "udp", unix.EPERM, false, true, false},
}

func mkFault(fk faultKind, nth int) vsys.Fault {
	return vsys.Fault{Site: fk.site, Nth: nth, Errno: int(fk.errno), Class: fk.class, State: fk.state, Retry: fk.retry}
}

// enumerate runs the scenario fault-free, then once per (site, call index <= K,
// errno) with exactly that fault injected, on the same seed (hence the same
// schedule up to the point where the fault changes behaviour).
func enumerate(t *testing.T, p *Plan, prop string) runner.Outcome {
	base := clonePlan(p)
	base.Enum, base.Faults = false, nil
	o0 := Execute(t, base, prop)
	agg := runner.Outcome{Probes: map[string]int{}, Faults: map[string]int{}, LogHash: o0.LogHash, Signature: o0.Signature, Steps: o0.Steps, SimNanos: o0.SimNanos, Evals: 1}
	if o0.Inconcl || o0.Violation != nil {
		// the scenario itself is not clean: nothing to say about isolation
		agg.Inconcl = true
		agg.Note = "baseline of the scenario not clean: " + o0.Note
		if o0.Violation != nil {
			agg.Note += o0.Violation.Key
		}
		return agg
	}
	K := p.EnumK
	if K <= 0 {
		K = 8
	}
	var h runner.Hasher
	h.Add(o0.LogHash)
	sites := map[string]int{}
	for k, v := range o0.Probes {
		if len(k) > 6 && k[:6] == "calls:" {
			sites[k[6:]] = v
		}
	}
	var names []string
	for s := range sites {
		names = append(names, s)
	}
	sort.Strings(names)
	for _, fk := range faultKinds {
		n := sites[fk.site+"/"+fk.class]
		if fk.ltOnly && base.Cfg.ET || fk.ltOnly && base.Cfg.Chunk > 0 {
			continue
		}
		for nth := 1; nth <= n && nth <= K; nth++ {
			sub := clonePlan(base)
			sub.Faults = []vsys.Fault{mkFault(fk, nth)}
			o := Execute(t, sub, prop)
			agg.Evals++
			agg.Steps += o.Steps
			agg.SimNanos += o.SimNanos
			agg.Probes["faults-enumerated"]++
			for k, v := range o.Faults {
				agg.Faults[k] += v
			}
			for k, v := range o.Probes {
				if len(k) < 6 || k[:6] != "calls:" {
					agg.Probes[k] += v
				}
			}
			h.Add(o.LogHash)
			if o.Inconcl {
				agg.Probes["enumerated-inconclusive"]++
			}
			if o.Violation != nil {
				o.Plan = sub
				o.Evals = agg.Evals
				o.Probes, o.Faults = agg.Probes, agg.Faults
				return o
			}
		}
	}
	agg.LogHash = h.Sum()
	agg.Signature = h.U64()
	agg.NonTrivial = agg.Probes["faults-enumerated"] > 0
	agg.Probes["scenarios-enumerated-completely"]++
	_ = fmt.Sprint
	return agg
}

// GenerateC18 builds a small scenario: a few connections with echo-like
// checked traffic, a late probe connection, shutdown at the end.
func GenerateC18(seed uint64, tier string) *Plan {
	r := runner.NewRand(seed)
	p := &Plan{Seed: r.U64()}
	c := &p.Cfg
	c.Network = []string{"tcp", "tcp", "unix"}[r.Intn(3)]
	c.Host = "127.0.0.1"
	if c.Network == "unix" {
		c.Host = "/tmp/verif-sim.sock"
	}
	c.Loops = r.Pick(1, 2)
	c.ET = r.Chance(1, 2)
	c.ReusePort = r.Chance(1, 3)
	c.ReadBuf = r.Pick(1024, 2048)
	c.WriteBuf = r.Pick(1024, 2048)
	c.SndBuf = r.Pick(0, 2048, 4096)
	c.Strategy = "random"
	c.Quantum = r.Pick(3, 10, 40)
	c.OffSites = []string{"atomic:"}
	c.CanaryPct = r.Pick(0, 100)
	n := r.Range(3, 4)
	for i := 0; i < n; i++ {
		cp := ConnPlan{Start: i * 3}
		if r.Chance(1, 2) {
			cp.OpenReply = r.Pick(10, 1500)
		}
		rounds := r.Range(1, 3)
		for j := 0; j < rounds; j++ {
			sz := r.Pick(1, 100, 1024, 3000)
			cp.Peer = append(cp.Peer, PeerOp{K: "send", N: sz, Segs: genSegs(r, sz, c.ReadBuf)}, PeerOp{K: "recv", N: r.Pick(1, 500)})
			st := TStep{R: []ROp{{M: []string{"next", "read", "peekdiscard"}[r.Intn(3)], N: r.Pick(-1, 64, 1000)}}}
			st.W = []WOp{{M: []string{"write", "writev", "asyncwrite", "readfrom"}[r.Intn(4)], N: r.Pick(1, 700, 5000), Segs: []int{r.Pick(1, 300), r.Pick(0, 800)}}}
			if st.W[0].M == "readfrom" {
				st.W[0].Segs = nil
			}
			cp.Traffic = append(cp.Traffic, st)
		}
		if r.Chance(1, 3) {
			cp.Peer = append(cp.Peer, PeerOp{K: "close"})
		}
		p.Conns = append(p.Conns, cp)
	}
	// the probe: connects late, must be served whatever happened before
	p.Conns = append(p.Conns, ConnPlan{Start: 120, Peer: []PeerOp{{K: "send", N: 300}, {K: "recv", N: 300}},
		Traffic: []TStep{{R: []ROp{{M: "next", N: -1}}, W: []WOp{{M: "write", N: 300}}}}})
	p.Stop.Source = "engine.Stop"
	p.Enum = true
	p.EnumK = 6
	if tier == "thorough" {
		p.EnumK = 12
	}
	return p
}

// GenerateC18UDP: a UDP scenario; a failing recvfrom/sendto loses at most the
// datagram (or reply) it was made for, every other datagram is handled as usual.
func GenerateC18UDP(seed uint64, tier string) *Plan {
	p := GenerateUDP(seed, tier)
	p.Stop = StopPlan{Source: "engine.Stop"}
	p.Cfg.Ticker = false
	p.Enum = true
	p.EnumK = 6
	return p
}

// GenerateC18Random: an ordinary random plan with 1..2 random faults (thorough tier).
func GenerateC18Random(seed uint64, tier string) *Plan {
	p := Generate(seed, "C04", tier)
	r := runner.NewRand(seed ^ 0xfa17)
	k := r.Range(1, 2)
	for i := 0; i < k; i++ {
		fk := faultKinds[r.Intn(len(faultKinds))]
		if fk.ltOnly && (p.Cfg.ET || p.Cfg.Chunk > 0) {
			continue
		}
		p.Faults = append(p.Faults, mkFault(fk, r.Range(1, 12)))
	}
	if len(p.Faults) == 0 {
		p.Faults = append(p.Faults, mkFault(faultKinds[0], r.Range(1, 6)))
	}
	return p
}
