package vsim

import (
	"golang.org/x/sys/unix"
	"sort"
	"verif/sim/runner"
	"verif/sim/vsys"
)

func pickSize(r *runner.Rand, rb int) int {
	switch r.Intn(12) {
	case 0:
		return 1
	case 1:
		return r.Range(1, 16)
	case 2, 3:
		return max(1, rb+r.Range(-1, 1)) // exactly the read buffer, ±1
	case 4:
		return max(1, 2*rb+r.Range(-1, 1))
	case 5, 6, 7:
		return r.Range(1, 600)
	case 8, 9:
		return r.Range(1, 3*rb)
	case 10:
		return r.Range(1, 70000)
	default:
		return r.Range(1, 200000)
	}
}

func genSegs(r *runner.Rand, n, rb int) []int {
	switch r.Intn(6) {
	case 0:
		return nil // one segment
	case 1: // one byte at a time (bounded)
		k := min(n, 40)
		s := make([]int, k)
		for i := range s {
			s[i] = 1
		}
		return s
	case 2:
		return []int{rb}
	case 3:
		return []int{rb - 1, 1, rb + 1}
	default:
		k := r.Range(1, 5)
		var s []int
		for i := 0; i < k; i++ {
			s = append(s, r.Range(1, max(1, n)))
		}
		return s
	}
}

func genROps(r *runner.Rand, rb int) []ROp {
	var ops []ROp
	k := r.Range(0, 3)
	for i := 0; i < k; i++ {
		m := []string{"read", "next", "peek", "discard", "peekdiscard", "writeto", "next", "read"}[r.Intn(8)]
		n := 0
		switch r.Intn(8) {
		case 0:
			n = 0
		case 1:
			n = -1
		case 2:
			n = 1
		case 3:
			n = r.Range(1, 64)
		case 4:
			n = rb
		case 5:
			n = 1 << 20 // more than buffered
		default:
			n = r.Range(1, 2*rb)
		}
		op := ROp{M: m, N: n}
		if m == "writeto" {
			op.Acc = r.Pick(0, 0, 1, r.Range(1, rb), 1<<20, -2) // -2: the connection itself is the writer (echo)
		}
		if m == "read" && n <= 0 {
			op.N = r.Range(0, 64)
		}
		ops = append(ops, op)
	}
	return ops
}

func genWOps(r *runner.Rand, wb int, heavy bool) []WOp {
	var ops []WOp
	k := r.Range(0, 2)
	if heavy {
		k = r.Range(1, 4)
	}
	for i := 0; i < k; i++ {
		m := []string{"write", "write", "writev", "readfrom", "asyncwrite", "asyncwritev", "write"}[r.Intn(7)]
		op := WOp{M: m}
		sz := func() int {
			switch r.Intn(8) {
			case 0:
				return 0
			case 1:
				return 1
			case 2:
				return wb + r.Range(-1, 1)
			case 3:
				return r.Range(1, 4*wb)
			case 4:
				return r.Range(1, 300000)
			default:
				return r.Range(1, 2000)
			}
		}
		switch m {
		case "writev", "asyncwritev":
			ns := r.Range(0, 5)
			if r.Chance(1, 30) {
				ns = r.Range(1020, 1500)
			}
			for j := 0; j < ns; j++ {
				if ns > 50 {
					op.Segs = append(op.Segs, r.Intn(5))
				} else if r.Chance(1, 6) {
					op.Segs = append(op.Segs, 0)
				} else {
					op.Segs = append(op.Segs, max(0, sz()/2))
				}
			}
		case "readfrom":
			op.N = max(1, sz())
			op.Segs = genSegs(r, op.N, 512)
		default:
			op.N = sz()
		}
		ops = append(ops, op)
	}
	return ops
}

// Generate builds the plan of one run. The property biases the mix, it never
// narrows what the monitors check.
func Generate(seed uint64, prop, tier string) *Plan {
	r := runner.NewRand(seed)
	p := &Plan{Seed: r.U64()}
	c := &p.Cfg
	c.Network = []string{"tcp", "tcp", "tcp", "unix", "tcp6"}[r.Intn(5)]
	switch c.Network {
	case "tcp":
		c.Host = "127.0.0.1"
	case "tcp6":
		c.Host = "[::1]"
		if prop == "C17" || r.Chance(1, 2) {
			c.Host = "[fe80::1%eth0]"
		}
	case "unix":
		c.Host = "/tmp/verif-sim.sock"
	}
	if prop == "C17" && r.Chance(1, 2) {
		c.Network, c.Host = "tcp6", "[fe80::1%eth0]"
	}
	c.Loops = r.Pick(1, 1, 2, 3, 4)
	if prop == "C15" {
		c.Loops = r.Pick(1, 2, 3, 4, 5, 7, 8)
		if r.Chance(1, 8) {
			c.Loops = r.Pick(17, 24, 33) // more loops than any fixed-size scan window or cache line of counters
		}
		if tier == "thorough" && r.Chance(1, 20) {
			c.Loops = r.Pick(16, 64, 256)
		}
	}
	switch r.Intn(4) {
	case 0:
		c.ET = true
	case 1:
		c.ET = true
		c.Chunk = r.Pick(1024, 2048, 4096, 65536)
	}
	c.ReusePort = r.Chance(1, 3)
	if c.Network != "unix" && (prop == "C06" || prop == "C07") && r.Chance(1, 4) || r.Chance(1, 10) {
		c.Listeners = r.Pick(2, 3, 4) // Rotate: two tcp listeners, tcp plus unix, or tcp plus an (idle) udp listener
		if c.Listeners == 4 {
			// a UDP address among the listeners forces SO_REUSEPORT mode and switches
			// edge-triggered I/O off (the chunk option stays as given)
			c.ReusePort = true
		}
	}
	if c.Listeners == 4 && (prop == "C15" || c.Network != "tcp") {
		c.Listeners = 2
	}
	c.LB = r.Intn(3)
	if prop == "C15" {
		c.ReusePort = false
		c.Serial = c.LB == 1 || r.Chance(1, 3)
	}
	c.ReadBuf = r.Pick(0, 1024, 1024, 2048, 4096, 65536)
	c.WriteBuf = r.Pick(0, 1024, 1024, 2048, 4096, 65536)
	rb := c.ReadBuf
	if rb == 0 {
		rb = 65536
	}
	wb := c.WriteBuf
	if wb == 0 {
		wb = 65536
	}
	c.SndBuf = r.Pick(0, 1024, 4096, 4096, 16384, 65536, 262144)
	c.RcvBuf = r.Pick(0, 1024, 4096, 65536, 262144)
	c.Ticker = r.Chance(1, 4)
	c.TickMs = r.Pick(1, 10, 100, 1000)
	if c.Ticker && r.Chance(2, 3) {
		// let simulated time pass during the workload, so that OnTick runs again
		// (and may ask for a shutdown) while connections are busy
		c.TickMs = r.Pick(1, 10, 100)
		for n := r.Range(1, 6); n > 0; n-- {
			c.TickAt = append(c.TickAt, r.Pick(3, 10, 30, 60, 150, 400, 1000))
		}
		sort.Ints(c.TickAt)
	}
	c.Strategy = []string{"random", "random", "pct", "starve"}[r.Intn(4)]
	c.Quantum = r.Pick(1, 1, 3, 10, 40)
	c.PCTDepth = r.Range(1, 4)
	c.FdBase = r.Pick(0, 0, 3, 100, 70000)
	c.CanaryPct = r.Pick(0, 0, 30, 100)
	c.OutHalf = r.Chance(1, 2)
	if !c.ET && r.Chance(1, 4) {
		c.ShortLT = r.Pick(10, 50)
	}
	c.EfdHigh = r.Chance(1, 10)
	// yield-site subset: atomics at full granularity only in part of the runs
	switch r.Intn(4) {
	case 0:
		c.OffSites = []string{"atomic:"}
	case 1:
		c.OffSites = []string{"atomic:load"}
	}

	if c.Serial && c.LB == 1 {
		// exact least-connections oracle: the balancer's scan of the per-loop
		// counters must be atomic with the accept4 that precedes it
		c.OffSites = []string{"atomic:"}
	}
	inHeavy := prop == "C01" || r.Chance(1, 3)
	outHeavy := prop == "C02" || r.Chance(1, 3)
	closeHeavy := prop == "C04" || prop == "C07" || r.Chance(1, 4)
	asyncHeavy := prop == "C03" || prop == "C05" || r.Chance(1, 4)

	nconn := r.Range(1, 4)
	if r.Chance(1, 6) {
		nconn = r.Range(4, 10)
	}
	if prop == "C15" || prop == "C14" {
		nconn = r.Range(3, 12)
		if c.Loops > 8 {
			nconn = min(3*c.Loops, 40)
		}
	}
	for i := 0; i < nconn; i++ {
		cp := ConnPlan{Start: r.Pick(0, 0, 0, 5, 30, 100)}
		if i > 0 && (prop == "C15" && r.Chance(1, 3) || r.Chance(1, 12)) {
			cp.AddrOf = 1 + r.Intn(i)
		}
		if (prop == "C15" || prop == "C14") && r.Chance(1, 2) {
			// short-lived connections: the vector of per-loop counts keeps changing
			cp.Peer = append(cp.Peer, PeerOp{K: "pause", N: r.Range(1, 60)}, PeerOp{K: "close"})
		}
		if r.Chance(1, 3) {
			cp.OpenReply = r.Pick(1, 16, 1000, wb, 3*wb)
		}
		if closeHeavy && r.Chance(1, 8) {
			cp.OpenAct = 1
		}
		if r.Chance(1, 6) {
			cp.OpenW = genWOps(r, wb, false)
		}
		// peer script
		nops := r.Range(1, 6)
		if len(cp.Peer) > 0 {
			nops = 0
		}
		for j := 0; j < nops; j++ {
			var op PeerOp
			switch x := r.Intn(12); {
			case x < 5 || inHeavy && x < 7:
				n := pickSize(r, rb)
				op = PeerOp{K: "send", N: n, Segs: genSegs(r, n, rb)}
			case x < 8:
				op = PeerOp{K: "recv", N: r.Pick(1, 100, 5000, 1<<20)}
			case x == 8:
				op = PeerOp{K: "pause", N: r.Range(1, 30)}
			case x == 9:
				op = PeerOp{K: "drain"}
			case x == 10 && outHeavy:
				op = PeerOp{K: "squeeze"}
			default:
				op = PeerOp{K: "pause", N: r.Range(1, 10)}
			}
			cp.Peer = append(cp.Peer, op)
			if op.K == "squeeze" {
				cp.Peer = append(cp.Peer, PeerOp{K: "pause", N: r.Range(1, 40)}, PeerOp{K: "unsqueeze"})
			}
		}
		switch x := r.Intn(10); {
		case nops == 0:
		case x < 3 || closeHeavy && x < 6:
			cp.Peer = append(cp.Peer, PeerOp{K: "close"})
		case x == 3:
			cp.Peer = append(cp.Peer, PeerOp{K: "shutw"})
		case x == 4 && closeHeavy:
			cp.Peer = append(cp.Peer, PeerOp{K: "abort"})
		}
		if closeHeavy && r.Chance(1, 5) || r.Chance(1, 20) {
			cp.CloseW = []WOp{{M: []string{"write", "write", "writev", "asyncwrite"}[r.Intn(4)], N: r.Pick(1, 100, 5000), Segs: []int{r.Pick(1, 100), r.Pick(0, 300)}}}
		}
		if closeHeavy && r.Chance(1, 8) {
			cp.CloseAgain = r.Range(1, 2)
		}
		if prop == "C07" && r.Chance(1, 5) || r.Chance(1, 25) {
			cp.DupKeep = true
		}
		if prop == "C15" && c.LB == 2 && r.Chance(1, 5) || r.Chance(1, 60) {
			cp.Magic = r.Range(1, 9)
		}
		// handler script
		nt := r.Range(0, 6)
		for j := 0; j < nt; j++ {
			st := TStep{R: genROps(r, rb)}
			if outHeavy || r.Chance(1, 2) {
				st.W = genWOps(r, wb, outHeavy)
			}
			if closeHeavy && r.Chance(1, 10) {
				st.Act = 1
			}
			if closeHeavy && r.Chance(1, 12) {
				st.CloseSelf = true
			}
			if asyncHeavy && r.Chance(1, 6) {
				st.WakeSelf = true
			}
			cp.Traffic = append(cp.Traffic, st)
		}
		p.Conns = append(p.Conns, cp)
	}
	// users
	nu := 0
	if asyncHeavy || r.Chance(1, 3) {
		nu = r.Range(1, 3)
	}
	for u := 0; u < nu; u++ {
		var up UserPlan
		k := r.Range(1, 6)
		for j := 0; j < k; j++ {
			op := UserOp{Conn: r.Intn(nconn)}
			switch x := r.Intn(15); {
			case x < 4:
				op.K, op.N = "asyncwrite", r.Pick(0, 1, 100, wb, 3*wb, 100000)
			case x < 6:
				op.K = "asyncwritev"
				for s := r.Range(0, 4); s > 0; s-- {
					op.Segs = append(op.Segs, r.Pick(0, 1, 500, wb))
				}
			case x < 8:
				op.K, op.N = "wake", r.Intn(2)
			case x == 8 && closeHeavy:
				op.K = "close"
			case x == 9 && closeHeavy:
				op.K = "closecb"
			case x == 10:
				op.K = "execute"
			case x == 11:
				op.K = "count"
			case x == 12 && r.Chance(1, 2):
				op.K, op.N = "safectx", r.Intn(4)
			case x == 13 && nconn > 1:
				op.K = "broadcastv"
				op.To2 = 1 + (op.Conn+1+r.Intn(nconn-1))%nconn
				for s := r.Range(2, 4); s > 0; s-- {
					op.Segs = append(op.Segs, r.Pick(1, 500, wb, 3*wb, 100000))
				}
			default:
				op.K, op.N = "pause", r.Range(1, 20)
			}
			if closeHeavy && r.Chance(1, 8) && op.K != "pause" && op.K != "count" {
				op.Late = true
			}
			up.Ops = append(up.Ops, op)
		}
		if asyncHeavy && r.Chance(1, 6) {
			// a burst of tiny requests on one connection: more pending requests than
			// the loop takes per round / than the urgent queue's threshold (build
			// flavour +small: 3 per round, threshold 8)
			conn, at := r.Intn(nconn), r.Intn(len(up.Ops)+1)
			var burst []UserOp
			for b := r.Range(6, 40); b > 0; b-- {
				op := UserOp{Conn: conn, K: "asyncwrite", N: r.Pick(1, 1, 2, 10)}
				switch r.Intn(8) {
				case 0:
					op.K, op.N = "wake", r.Intn(2)
				case 1:
					op.K, op.N = "execute", 0
				}
				burst = append(burst, op)
			}
			up.Ops = append(up.Ops[:at], append(burst, up.Ops[at:]...)...)
		}
		p.Users = append(p.Users, up)
	}
	// control API and client-side connections
	if prop == "C19" || r.Chance(1, 5) {
		ctlHeavy := prop == "C19"
		nd := r.Range(0, 2)
		for i := 0; i < nd; i++ {
			cp := ConnPlan{Dial: true}
			if c.LB == 2 && nconn > 0 && r.Chance(1, 2) {
				// the framework dials (or is handed) a remote address that an accepted
				// peer also has: the hash policy must send both to the same loop
				cp.AddrOf = 1 + r.Intn(nconn)
			}
			if c.Network != "unix" && r.Chance(1, 4) {
				// a connected UDP socket registered with (or dialled by) a serving engine
				cp.UDP = true
				if r.Chance(1, 3) {
					cp.OpenReply = r.Pick(1, 100, 1400)
				}
				for j := r.Range(1, 3); j > 0; j-- {
					cp.Peer = append(cp.Peer, PeerOp{K: "send", N: r.Pick(1, 100, rb, rb+1, 1400)})
					cp.Traffic = append(cp.Traffic, TStep{W: genUDPReplies(r)})
				}
				p.Conns = append(p.Conns, cp)
				continue
			}
			for j := r.Range(0, 3); j > 0; j-- {
				n := pickSize(r, rb)
				cp.Peer = append(cp.Peer, PeerOp{K: "send", N: n, Segs: genSegs(r, n, rb)})
				if r.Chance(1, 2) {
					cp.Peer = append(cp.Peer, PeerOp{K: "recv", N: r.Pick(1, 100, 5000)})
				}
			}
			if r.Chance(1, 3) {
				cp.Peer = append(cp.Peer, PeerOp{K: "close"})
			}
			for j := r.Range(0, 3); j > 0; j-- {
				cp.Traffic = append(cp.Traffic, TStep{R: genROps(r, rb), W: genWOps(r, wb, false)})
			}
			p.Conns = append(p.Conns, cp)
		}
		nu2 := r.Range(1, 3)
		if !ctlHeavy {
			nu2 = 1
		}
		dialIdx := nconn
		for u := 0; u < nu2; u++ {
			var up UserPlan
			for j := r.Range(2, 8); j > 0; j-- {
				op := UserOp{}
				switch x := r.Intn(13); {
				case x == 0:
					op.K = "validate"
				case x == 1:
					op.K = "countx"
				case x == 2:
					op.K = "dup"
				case x == 3:
					op.K = "duplistener"
				case x == 4:
					op.K = "duplistener-bad"
				case x == 5:
					op.K = "register-none"
					if nconn > 0 && r.Chance(1, 2) {
						op.K = "loop-misuse"
					}
				case x == 6 && ctlHeavy:
					op.K, op.N = "stopctx", r.Intn(3)
				case (x == 7 || x == 8) && dialIdx < len(p.Conns):
					op.K, op.Conn = []string{"register", "enroll"}[r.Intn(2)], dialIdx
					if op.K == "enroll" && r.Chance(1, 6) {
						op.K = "enroll-other"
					} else if nconn > 0 && r.Chance(1, 4) {
						op.K, op.N = op.K+"-loop", r.Intn(nconn) // EventLoop.Register / EventLoop.Enroll of an accepted connection's loop
					}
					dialIdx++
				default:
					op.K, op.N = "pause", r.Range(1, 40)
				}
				up.Ops = append(up.Ops, op)
			}
			if ctlHeavy && r.Chance(1, 2) {
				// the same calls once the shutdown has completed
				up.Ops = append(up.Ops, UserOp{K: "await-stop"})
				for j := r.Range(1, 4); j > 0; j-- {
					k := []string{"validate", "countx", "dup", "duplistener", "register-none", "stopctx", "stopctx", "loop-misuse"}[r.Intn(8)]
					up.Ops = append(up.Ops, UserOp{K: k, N: r.Intn(3)})
				}
			}
			p.Users = append(p.Users, up)
		}
	}
	// shutdown
	p.Stop.Source = "engine.Stop"
	if prop == "C06" || prop == "C19" && r.Chance(1, 2) || r.Chance(1, 4) {
		p.Stop.Source = []string{"engine.Stop", "gnet.Stop", "engine.Stop"}[r.Intn(3)]
		p.Stop.AtStep = r.Pick(1, 5, 20, 60, 150, 400, 1000)
		p.Stop.Double = r.Chance(1, 5)
		if c.Ticker && r.Chance(1, 4) {
			p.Stop.Source = "tick"
			p.Stop.AtStep = r.Range(1, 4)
		}
		if r.Chance(1, 25) {
			p.Stop.Source = "boot"
		}
		if prop == "C06" && r.Chance(1, 15) && p.Stop.Source != "boot" && p.Stop.Source != "tick" && c.Network == "tcp" && c.Listeners == 0 {
			// an older engine under the same address goes away first; this one is then
			// stopped through the package-level Stop
			c.Sibling, c.ReusePort = true, true
			p.Stop.Source = "gnet.Stop"
		}
		if prop == "C06" && nconn > 0 && r.Chance(1, 30) && p.Stop.Source != "boot" && p.Stop.Source != "tick" {
			// shutdown under sustained load: one application goroutine keeps writing
			// asynchronously to a connection (whose peer reads everything) until Run returns
			p.Stop.AtStep = r.Pick(150, 400, 1000)
			ci := r.Intn(nconn)
			p.Conns[ci].Peer = []PeerOp{{K: "drain"}}
			for k := r.Range(3, 5); k > 0; k-- {
				// several producers: together they enqueue faster than the loop executes
				p.Users = append(p.Users, UserPlan{Ops: []UserOp{{K: "flood", Conn: ci}}})
			}
			c.MaxSteps = 60000
		}
		if r.Chance(1, 5) && len(p.Conns) > 0 {
			// Shutdown action from a callback
			ci := r.Intn(len(p.Conns))
			switch r.Intn(3) {
			case 0:
				p.Conns[ci].OpenAct = 2
			case 1:
				if len(p.Conns[ci].Traffic) > 0 {
					p.Conns[ci].Traffic[r.Intn(len(p.Conns[ci].Traffic))].Act = 2
				}
			case 2:
				p.Conns[ci].CloseAct = 2
			}
		}
	}
	addStartFault(r, p, prop)
	return p
}

// addStartFault (C07 only): a descriptor-creating call fails while the engine or
// client starts (descriptor limit, memory), or while Dup/Register/Enroll
// duplicate a descriptor: Run (Client.Start) must return with everything it had
// created closed again, and nothing that is still running may use a closed number.
func addStartFault(r *runner.Rand, p *Plan, prop string) {
	if prop == "C19" {
		// Register/Enroll/Dup under a failing duplication or registration: still
		// exactly one result per call, a usable connection or an error
		regs, dups := 0, 0
		for _, u := range p.Users {
			for _, op := range u.Ops {
				switch op.K {
				case "register", "enroll", "enroll-other", "enroll-loop", "register-loop":
					regs++
					dups++
				case "dup", "duplistener":
					dups++
				}
			}
		}
		if regs > 0 && r.Chance(1, 4) {
			if r.Chance(1, 2) {
				p.Faults = append(p.Faults, vsys.Fault{Site: "epoll_ctl_add", Class: "stream", Nth: r.Range(1, regs+1), Errno: int(unix.ENOMEM)})
			} else {
				p.Faults = append(p.Faults, vsys.Fault{Site: "fcntl_dupfd", Nth: r.Range(1, dups), Errno: int(unix.EMFILE)})
			}
		}
		return
	}
	if prop != "C07" {
		return
	}
	c := &p.Cfg
	if r.Chance(1, 4) {
		c.KeepAlive = 60
	}
	if !c.Client && len(p.Conns) > 1 && r.Chance(1, 10) {
		// accept4 fails for good (descriptor table full) while connections are open:
		// the loop that accepted gives up and takes the engine down with an error;
		// everything must still be closed and released before Run returns
		p.Faults = append(p.Faults, vsys.Fault{Site: "accept", Class: "listener", Nth: r.Range(2, len(p.Conns)), Errno: int([]unix.Errno{unix.EMFILE, unix.ENFILE, unix.ENOMEM}[r.Intn(3)])})
		return
	}
	if !r.Chance(1, 6) {
		return
	}
	sites := []string{"socket", "bind", "listen", "epoll_create", "eventfd", "epoll_ctl_add", "epoll_ctl_add", "setsockopt"}
	if c.Client {
		sites = []string{"epoll_create", "eventfd", "epoll_ctl_add"}
		if c.SndBuf > 0 || c.KeepAlive > 0 {
			// socket options applied to the duplicate of an enrolled connection
			sites = append(sites, "setsockopt", "setsockopt", "setsockopt")
		}
	}
	site := sites[r.Intn(len(sites))]
	dups := 0
	for _, u := range p.Users {
		for _, op := range u.Ops {
			switch op.K {
			case "dup", "duplistener", "enroll", "enroll-other", "enroll-loop", "cenroll":
				dups++
			}
		}
	}
	if dups > 0 && r.Chance(1, 2) {
		site = "fcntl_dupfd"
	}
	f := vsys.Fault{Site: site, Nth: r.Range(1, max(1, c.Loops)+2), Errno: int(unix.EMFILE)}
	switch site {
	case "bind":
		f.Errno = int(unix.EADDRINUSE)
	case "epoll_ctl_add":
		f.Errno = int(unix.ENOMEM)
		f.Class = []string{"eventfd", "listener"}[r.Intn(2)]
		if c.Client {
			f.Class = "eventfd"
		}
	case "fcntl_dupfd":
		f.Nth = r.Range(1, dups)
	case "setsockopt":
		f.Errno = int(unix.ENOPROTOOPT)
		f.Nth = r.Range(1, 6)
		if c.Client {
			f.Nth = r.Range(1, 3)
		}
	}
	p.Faults = append(p.Faults, f)
}
