package vsim

import (
	"fmt"
	"net"
	"sort"

	gnet "github.com/panjf2000/gnet/v2"
	"golang.org/x/sys/unix"

	"verif/sim/runner"
	"verif/sim/vsched"
	"verif/sim/vsys"
)

// Dgram is one datagram a simulated sender puts on the wire, with what the
// handler does when it arrives.
type Dgram struct {
	Sender int   `json:"sender"`
	Size   int   `json:"size"`
	R      []ROp `json:"r,omitempty"`     // consumption inside OnTraffic
	Reply  []WOp `json:"reply,omitempty"` // write | sendto | asyncwrite (N bytes; sendto: Segs[0] = target sender)
	Act    int   `json:"act,omitempty"`
}

type UDPPlan struct {
	Senders int     `json:"senders"` // 1..6; address family/zone derived from the index
	V6      bool    `json:"v6,omitempty"`
	Dgrams  []Dgram `json:"dgrams"`
}

func dgramByte(id, i int) byte { return byte(id*41 + i*97 + (i>>8)*13 + 3) }

// senderPort: sender ports include the boundaries of the 16-bit range (the
// values a range check or a byte-order conversion gets wrong first).
func senderPort(i int) int {
	return []int{30000, 65535, 1, 32768, 32767, 255, 256}[i%7] + (i/7)*3
}

func (w *World) senderAddr(i int) unix.Sockaddr {
	if w.p.UDP.V6 {
		sa := &unix.SockaddrInet6{Port: senderPort(i)}
		if i%3 == 0 {
			copy(sa.Addr[:], net.ParseIP("::1").To16())
		} else {
			copy(sa.Addr[:], net.ParseIP(fmt.Sprintf("fe80::%x", 16+i)).To16())
			sa.ZoneId = []uint32{2, 5, 9, 7}[i%4]
		}
		return sa
	}
	return &unix.SockaddrInet4{Port: senderPort(i), Addr: [4]byte{10, 1, 0, byte(1 + i)}}
}

type udpState struct {
	next        int            // next datagram to inject
	ids         map[int]int    // kernel datagram id -> plan index
	handled     map[int]int    // plan index -> OnTraffic count
	lastRecv    map[string]int // task -> index into k.UDPRecv already attributed
	expectOut   []*expSend
	readBuf     int
	sentChecked int
}

type expSend struct {
	payload []byte
	to      unix.Sockaddr
	what    string
	task    string
	matched bool
	dropped bool // the send failed because of an injected fault: nothing is expected
}

func (w *World) udpEvents() []vsched.Event {
	u := w.udp
	if w.p.UDP == nil || !w.booted || u.next >= len(w.p.UDP.Dgrams) || w.ph >= phDrain {
		return nil
	}
	keys := w.k.UDPKeys()
	if len(keys) == 0 {
		return nil
	}
	return []vsched.Event{{Name: fmt.Sprintf("dgram%03d", u.next), Run: func() {
		d := w.p.UDP.Dgrams[u.next]
		payload := make([]byte, d.Size)
		key := ""
		for _, k := range w.k.UDPKeys() {
			if len(k) > 3 && k[:3] == "udp" {
				key = k
			}
		}
		// the kernel numbers datagrams in injection order starting at 1
		id := w.k.UDPInjectCount() + 1
		for i := range payload {
			payload[i] = dgramByte(id, i)
		}
		got := w.k.UDPInject(key, payload, w.senderAddr(d.Sender))
		if got != 0 {
			u.ids[got] = u.next
		}
		w.logf("dgram %d (kernel id %d) from sender %d size %d", u.next, got, d.Sender, d.Size)
		u.next++
	}}}
}

// onTrafficUDP handles one OnTraffic of a datagram "connection".
func (w *World) onTrafficUDP(c gnet.Conn) gnet.Action {
	u := w.udp
	task := vsched.CurrentName()
	if w.runDone {
		w.violate("C06", "callback-after-return", "OnTraffic (UDP) ran after Run had returned")
	}
	if w.loopTasks[task] > 0 {
		w.violate("C05", "nested-callback", "OnTraffic (UDP) started on task %s while another callback of that loop was in flight", task)
	}
	w.loopTasks[task]++
	defer func() { w.loopTasks[task]-- }()
	// which datagram did this task's last recvfrom return?
	var rec *vsys.UDPRecvRec
	for i := len(w.k.UDPRecv) - 1; i >= 0; i-- {
		if w.k.UDPRecv[i].Task == task {
			if i+1 > u.lastRecv[task] {
				rec = &w.k.UDPRecv[i]
				u.lastRecv[task] = i + 1
			}
			break
		}
	}
	if rec == nil {
		w.violate("C08", "traffic-without-datagram", "OnTraffic on task %s without a new datagram having been received by that loop", task)
		return gnet.None
	}
	idx, ok := u.ids[rec.ID]
	if !ok {
		w.violate("C08", "unknown-datagram", "OnTraffic for a datagram the harness did not send (kernel id %d)", rec.ID)
		return gnet.None
	}
	u.handled[idx]++
	d := &w.p.UDP.Dgrams[idx]
	w.logf("cb OnTraffic(udp) dgram=%d n=%d task=%s", idx, rec.N, task)
	w.probes["udp-datagrams-handled"]++
	if u.handled[idx] > 1 {
		w.violate("C08", "datagram-twice", "datagram %d produced %d OnTraffic events", idx, u.handled[idx])
	}
	want := min(d.Size, u.readBuf)
	if b := c.InboundBuffered(); b != want {
		w.violate("C08", "boundary", "datagram %d of %d bytes (read buffer %d): InboundBuffered()=%d at OnTraffic, want %d (merged, split or carried over)", idx, d.Size, u.readBuf, b, want)
		return gnet.None
	}
	if p := w.addrProblemUDP(c.RemoteAddr(), w.senderAddr(d.Sender)); p != "" {
		w.violate("C08", "remote-addr", "datagram %d from sender %d: RemoteAddr: %s", idx, d.Sender, p)
		w.violate("C17", "udp-remote-addr", "datagram %d from sender %d: RemoteAddr: %s", idx, d.Sender, p)
	}
	w.probes["address-checks"]++
	// content via Peek(-1): exactly this datagram
	if buf, err := c.Peek(-1); err != nil || len(buf) != want {
		w.violate("C08", "content", "datagram %d: Peek(-1) returned %d bytes, err=%v, want %d", idx, len(buf), err, want)
	} else {
		for i, b := range buf {
			if b != dgramByte(rec.ID, i) {
				w.violate("C08", "content", "datagram %d: byte %d is %#x, want %#x (data of another datagram?)", idx, i, b, dgramByte(rec.ID, i))
				break
			}
		}
	}
	// consumption choices (none / part / all)
	consumed := 0
	for _, op := range d.R {
		buffered := c.InboundBuffered()
		switch op.M {
		case "read":
			p := make([]byte, max(0, op.N))
			m, _ := c.Read(p)
			for i := 0; i < m; i++ {
				if p[i] != dgramByte(rec.ID, consumed+i) {
					w.violate("C08", "content", "datagram %d: Read returned a wrong byte at offset %d", idx, consumed+i)
					break
				}
			}
			consumed += m
		case "next":
			buf, err := c.Next(op.N)
			if op.N > buffered {
				if err == nil {
					w.violate("C08", "short-buffer", "datagram %d: Next(%d) with %d buffered succeeded", idx, op.N, buffered)
				}
				continue
			}
			for i, b := range buf {
				if b != dgramByte(rec.ID, consumed+i) {
					w.violate("C08", "content", "datagram %d: Next returned a wrong byte at offset %d", idx, consumed+i)
					break
				}
			}
			consumed += len(buf)
		case "discard":
			n, _ := c.Discard(op.N)
			consumed += n
		}
		if c.InboundBuffered() != want-consumed {
			w.violate("C08", "conservation", "datagram %d: consumed %d of %d but InboundBuffered()=%d", idx, consumed, want, c.InboundBuffered())
			break
		}
	}
	if consumed < want {
		w.probes["udp-partial-consumption"]++
	}
	// replies
	for _, op := range d.Reply {
		id := w.newOpID()
		data := outPayload(id, op.N)
		switch op.M {
		case "write":
			e := &expSend{payload: append([]byte(nil), data...), to: w.senderAddr(d.Sender), what: "Write", task: task}
			u.expectOut = append(u.expectOut, e)
			n, err := c.Write(data)
			if err != nil && len(w.p.Faults) > 0 {
				e.dropped = true // an injected sendto failure: this reply is lost, nothing else
			} else if err != nil || n != op.N {
				w.violate("C08", "write", "datagram %d: Write of %d bytes returned (%d, %v)", idx, op.N, n, err)
			}
		case "asyncwrite":
			e := &expSend{payload: append([]byte(nil), data...), to: w.senderAddr(d.Sender), what: "AsyncWrite", task: task}
			u.expectOut = append(u.expectOut, e)
			if err := c.AsyncWrite(data, nil); err != nil && len(w.p.Faults) > 0 {
				e.dropped = true
			} else if err != nil {
				w.violate("C08", "write", "datagram %d: AsyncWrite of %d bytes returned %v", idx, op.N, err)
			}
		case "sendto":
			target := 0
			if len(op.Segs) > 0 {
				target = op.Segs[0] % max(1, w.p.UDP.Senders)
			}
			sa := w.senderAddr(target)
			e := &expSend{payload: append([]byte(nil), data...), to: sa, what: "SendTo", task: task}
			u.expectOut = append(u.expectOut, e)
			n, err := c.SendTo(data, sockaddrToUDPAddr(w, sa))
			if err != nil && len(w.p.Faults) > 0 {
				e.dropped = true
			} else if err != nil || n != op.N {
				w.violate("C08", "write", "datagram %d: SendTo of %d bytes returned (%d, %v)", idx, op.N, n, err)
			}
		case "sendto-any":
			// the wildcard address of the socket's own family as destination (the
			// kernel delivers such a datagram to the local host): it must reach the
			// kernel as that address, in that family
			port := 7000 + idx%1000
			var sa unix.Sockaddr = &unix.SockaddrInet4{Port: port}
			na := &net.UDPAddr{IP: net.IPv4zero, Port: port}
			if w.p.Cfg.Network == "udp6" {
				sa, na = &unix.SockaddrInet6{Port: port}, &net.UDPAddr{IP: net.IPv6unspecified, Port: port}
			}
			e := &expSend{payload: append([]byte(nil), data...), to: sa, what: "SendTo", task: task}
			u.expectOut = append(u.expectOut, e)
			n, err := c.SendTo(data, na)
			w.probes["sendto-wildcard-address"]++
			if err != nil && len(w.p.Faults) > 0 {
				e.dropped = true
			} else if err != nil || n != op.N {
				w.violate("C17", "sendto-wildcard", "datagram %d: SendTo(%d bytes, %s) returned (%d, %v)", idx, op.N, na, n, err)
				w.violate("C08", "write", "datagram %d: SendTo of %d bytes to %s returned (%d, %v)", idx, op.N, na, n, err)
				e.dropped = true
			}
		case "sendto-bad":
			var bad net.Addr
			kind := 0
			if len(op.Segs) > 0 {
				kind = op.Segs[0]
			}
			switch kind {
			case 0:
				bad = &net.UDPAddr{IP: net.IP{10, 0, 0}, Port: 9}
			case 1:
				bad = &net.UDPAddr{IP: make(net.IP, 5), Port: 9}
			case 2:
				bad = &net.IPAddr{IP: net.IP{1, 2, 3}}
			default:
				bad = &net.TCPAddr{IP: make(net.IP, 17), Port: 9}
			}
			n, err := c.SendTo(data, bad)
			w.probes["sendto-invalid-address"]++
			if err == nil {
				w.violate("C17", "sendto-invalid-address", "datagram %d: SendTo(%d bytes, %#v) returned (%d, nil): an address with an invalid IP length was converted to something", idx, op.N, bad, n)
				w.violate("C08", "sendto-invalid-address", "datagram %d: SendTo(%d bytes, %#v) returned (%d, nil)", idx, op.N, bad, n)
			}
		}
		w.checkUDPSent()
	}
	switch gnet.Action(d.Act) {
	case gnet.Shutdown:
		w.otherShutdown = true
		w.stopRequested = true
	}
	return gnet.Action(d.Act)
}

func sockaddrToUDPAddr(w *World, sa unix.Sockaddr) net.Addr {
	switch s := sa.(type) {
	case *unix.SockaddrInet4:
		if w.k.Draw("sendto-ip-form", 2) == 1 {
			// the 16-byte form of an IPv4 address, as net.ParseIP / net.IPv4 produce it
			return &net.UDPAddr{IP: net.IPv4(s.Addr[0], s.Addr[1], s.Addr[2], s.Addr[3]), Port: s.Port}
		}
		return &net.UDPAddr{IP: net.IP(s.Addr[:]), Port: s.Port}
	case *unix.SockaddrInet6:
		return &net.UDPAddr{IP: net.IP(s.Addr[:]), Port: s.Port, Zone: w.zoneName(s.ZoneId)}
	}
	return nil
}

func (w *World) addrProblemUDP(a net.Addr, sa unix.Sockaddr) string {
	u, ok := a.(*net.UDPAddr)
	if !ok || u == nil {
		return fmt.Sprintf("got %v (%T)", a, a)
	}
	switch s := sa.(type) {
	case *unix.SockaddrInet4:
		if u.Port != s.Port || !u.IP.Equal(net.IP(s.Addr[:])) || u.Zone != "" {
			return fmt.Sprintf("got %v, the datagram came from %v:%d", a, net.IP(s.Addr[:]), s.Port)
		}
	case *unix.SockaddrInet6:
		if u.Port != s.Port || !u.IP.Equal(net.IP(s.Addr[:])) || u.Zone != w.zoneName(s.ZoneId) {
			return fmt.Sprintf("got %v, the datagram came from [%v%%%s]:%d", a, net.IP(s.Addr[:]), w.zoneName(s.ZoneId), s.Port)
		}
	}
	return ""
}

func sameSockaddr(a, b unix.Sockaddr) bool {
	switch x := a.(type) {
	case *unix.SockaddrInet4:
		y, ok := b.(*unix.SockaddrInet4)
		return ok && *x == *y
	case *unix.SockaddrInet6:
		y, ok := b.(*unix.SockaddrInet6)
		return ok && x.Port == y.Port && x.Addr == y.Addr && x.ZoneId == y.ZoneId
	}
	return false
}

// checkUDPSent: every datagram the framework sent is exactly one expected
// reply, in the order of the operations of its loop, to the right address.
func (w *World) checkUDPSent() {
	u := w.udp
	sent := w.k.UDPSent
	for i := u.sentChecked; i < len(sent); i++ {
		task := sent[i].Task
		// the next unmatched expectation of the same task
		var e *expSend
		for _, x := range u.expectOut {
			if x.task == task && !x.matched && !x.dropped {
				e = x
				break
			}
		}
		if e == nil {
			w.violate("C08", "extra-datagram", "the framework sent a datagram of %d bytes on task %s that no write operation asked for", len(sent[i].Payload), task)
			return
		}
		e.matched = true
		if string(sent[i].Payload) != string(e.payload) {
			w.violate("C08", "reply-content", "%s of %d bytes was sent as a datagram of %d bytes with different content", e.what, len(e.payload), len(sent[i].Payload))
			return
		}
		if sent[i].To == nil || !sameSockaddr(sent[i].To, e.to) {
			w.violate("C08", "reply-address", "%s was sent to %s, want %s", e.what, vsys.AddrKey("udp", sent[i].To), vsys.AddrKey("udp", e.to))
			if e.what == "SendTo" {
				// the destination went through the net.Addr -> sockaddr conversion
				w.violate("C17", "sendto-address-converted-wrongly", "SendTo to %s reached the kernel as %s", vsys.AddrKey("udp", e.to), vsys.AddrKey("udp", sent[i].To))
			}
			return
		}
		w.probes["udp-replies-checked"]++
	}
	u.sentChecked = len(sent)
}

func (w *World) udpFinal() {
	if w.p.UDP == nil {
		return
	}
	u := w.udp
	w.checkUDPSent()
	want := 0
	for _, e := range u.expectOut {
		if !e.dropped {
			want++
		}
	}
	if len(w.k.UDPSent) < want && w.viol["C08"] == nil {
		w.violate("C08", "reply-missing", "%d reply operations returned success but only %d datagrams were sent", want, len(w.k.UDPSent))
	}
	if w.stopRequested && w.udp.next < len(w.p.UDP.Dgrams) {
		return
	}
	if !w.udpDrained {
		return
	}
	for i := 0; i < u.next; i++ {
		if u.handled[i] != 1 {
			w.violate("C08", "datagram-lost", "datagram %d (%d bytes from sender %d) was delivered to the socket but produced %d OnTraffic events", i, w.p.UDP.Dgrams[i].Size, w.p.UDP.Dgrams[i].Sender, u.handled[i])
			return
		}
	}
}

// GenerateUDP builds a UDP plan.
func GenerateUDP(seed uint64, tier string) *Plan {
	r := runner.NewRand(seed)
	p := &Plan{Seed: r.U64()}
	c := &p.Cfg
	c.Network = "udp"
	c.Host = "127.0.0.1"
	u := &UDPPlan{Senders: r.Range(1, 6), V6: r.Chance(1, 2)}
	if u.V6 {
		c.Network = "udp6"
		c.Host = "[::1]"
	}
	p.UDP = u
	c.Loops = r.Pick(1, 1, 2, 3, 4)
	c.ReadBuf = r.Pick(0, 1024, 1024, 2048, 4096)
	rb := c.ReadBuf
	if rb == 0 {
		rb = 65536
	}
	c.Strategy = []string{"random", "random", "pct", "starve"}[r.Intn(4)]
	c.Quantum = r.Pick(1, 1, 3, 10)
	c.PCTDepth = r.Range(1, 3)
	if r.Chance(1, 2) {
		c.OffSites = []string{"atomic:"}
	}
	c.Ticker = r.Chance(1, 6)
	c.TickMs = 10
	if c.Ticker && r.Chance(1, 2) {
		for n := r.Range(1, 4); n > 0; n-- {
			c.TickAt = append(c.TickAt, r.Pick(3, 10, 30, 60, 150))
		}
		sort.Ints(c.TickAt)
	}
	n := r.Range(1, 14)
	flood := r.Chance(1, 12)
	if flood {
		// many small datagrams queued in the socket at once: more than any
		// per-wake-up batch a loop might take
		n = r.Range(70, 220)
	}
	for i := 0; i < n; i++ {
		d := Dgram{Sender: r.Intn(u.Senders)}
		if flood {
			d.Size = r.Range(1, 8)
			if r.Chance(1, 10) {
				d.Reply = append(d.Reply, WOp{M: "write", N: r.Range(1, 8)})
			}
			u.Dgrams = append(u.Dgrams, d)
			continue
		}
		switch r.Intn(10) {
		case 0:
			d.Size = 0
		case 1:
			d.Size = 1
		case 2, 3:
			d.Size = max(0, rb+r.Range(-1, 1))
		case 4:
			d.Size = 65507
		case 5:
			d.Size = r.Range(1, 65507)
		default:
			d.Size = r.Range(1, 1500)
		}
		for k := r.Range(0, 2); k > 0; k-- {
			d.R = append(d.R, ROp{M: []string{"read", "next", "discard"}[r.Intn(3)], N: r.Pick(0, 1, 10, d.Size/2, d.Size, 1<<20)})
		}
		for k := r.Range(0, 2); k > 0; k-- {
			op := WOp{M: []string{"write", "write", "sendto", "asyncwrite"}[r.Intn(4)], N: r.Pick(0, 1, 100, 1400, 9000)}
			if op.M == "sendto" {
				op.Segs = []int{r.Intn(u.Senders)}
				if r.Chance(1, 6) {
					// an address no conversion exists for: must be refused, not sent anywhere
					op.M, op.Segs = "sendto-bad", []int{r.Intn(4)}
				} else if r.Chance(1, 8) {
					op.M = "sendto-any"
				}
			}
			d.Reply = append(d.Reply, op)
		}
		u.Dgrams = append(u.Dgrams, d)
	}
	p.Stop.Source = "engine.Stop"
	if r.Chance(1, 5) {
		p.Stop.AtStep = r.Pick(5, 40, 150)
	}
	return p
}
