package vsim

// Shrink proposes simpler plans: fewer connections, users, operations and
// faults; smaller sizes; simpler configuration.
func Shrink(p *Plan) []any {
	var out []any
	add := func(q *Plan) { out = append(out, q) }
	// drop users
	for i := range p.Users {
		q := clonePlan(p)
		q.Users = append(q.Users[:i], q.Users[i+1:]...)
		add(q)
	}
	// drop connections (users referring to later indexes are renumbered)
	if len(p.Conns) > 1 {
		for i := range p.Conns {
			q := clonePlan(p)
			q.Conns = append(q.Conns[:i], q.Conns[i+1:]...)
			for ui := range q.Users {
				var ops []UserOp
				for _, op := range q.Users[ui].Ops {
					if op.K == "pause" || op.K == "count" || op.K == "stop" {
						ops = append(ops, op)
						continue
					}
					if op.Conn == i {
						continue
					}
					if op.Conn > i {
						op.Conn--
					}
					ops = append(ops, op)
				}
				q.Users[ui].Ops = ops
			}
			add(q)
		}
	}
	for i := range p.Faults {
		q := clonePlan(p)
		q.Faults = append(q.Faults[:i], q.Faults[i+1:]...)
		add(q)
	}
	// configuration
	c := p.Cfg
	try := func(f func(q *Plan)) { q := clonePlan(p); f(q); add(q) }
	if c.Loops > 1 {
		try(func(q *Plan) { q.Cfg.Loops = 1 })
	}
	if c.Ticker {
		try(func(q *Plan) { q.Cfg.Ticker = false; q.Cfg.TickAt = nil })
	}
	for i := range c.TickAt {
		i := i
		try(func(q *Plan) { q.Cfg.TickAt = append(q.Cfg.TickAt[:i], q.Cfg.TickAt[i+1:]...) })
	}
	if c.CanaryPct > 0 {
		try(func(q *Plan) { q.Cfg.CanaryPct = 0 })
	}
	if c.Sibling {
		try(func(q *Plan) { q.Cfg.Sibling = false })
	}
	if c.ReusePort && !c.Sibling {
		try(func(q *Plan) { q.Cfg.ReusePort = false })
	}
	if c.Listeners != 0 {
		try(func(q *Plan) { q.Cfg.Listeners = 0 })
	}
	if c.FdBase != 0 {
		try(func(q *Plan) { q.Cfg.FdBase = 0 })
	}
	if c.ShortLT != 0 {
		try(func(q *Plan) { q.Cfg.ShortLT = 0 })
	}
	if c.EfdHigh {
		try(func(q *Plan) { q.Cfg.EfdHigh = false })
	}
	if c.Chunk != 0 {
		try(func(q *Plan) { q.Cfg.Chunk = 0 })
	}
	if c.ET {
		try(func(q *Plan) { q.Cfg.ET = false; q.Cfg.Chunk = 0 })
	}
	if c.Network != "tcp" {
		try(func(q *Plan) { q.Cfg.Network = "tcp"; q.Cfg.Host = "127.0.0.1" })
	}
	if c.Strategy != "random" || c.Quantum != 1 {
		try(func(q *Plan) { q.Cfg.Strategy = "random"; q.Cfg.Quantum = 1 })
	}
	if c.Quantum < 40 {
		try(func(q *Plan) { q.Cfg.Quantum = 40 })
	}
	if len(c.OffSites) == 0 {
		try(func(q *Plan) { q.Cfg.OffSites = []string{"atomic:"} })
	}
	if c.SndBuf != 0 {
		try(func(q *Plan) { q.Cfg.SndBuf = 0 })
	}
	if c.RcvBuf != 0 {
		try(func(q *Plan) { q.Cfg.RcvBuf = 0 })
	}
	if p.Stop.AtStep > 0 {
		try(func(q *Plan) { q.Stop.AtStep = 0; q.Stop.Source = "engine.Stop" })
	}
	if p.Stop.Double {
		try(func(q *Plan) { q.Stop.Double = false })
	}
	// per connection
	for i, cp := range p.Conns {
		i := i
		if cp.Start != 0 {
			try(func(q *Plan) { q.Conns[i].Start = 0 })
		}
		if cp.OpenReply != 0 {
			try(func(q *Plan) { q.Conns[i].OpenReply = 0 })
		}
		if len(cp.OpenW) > 0 {
			try(func(q *Plan) { q.Conns[i].OpenW = nil })
		}
		if cp.OpenAct != 0 {
			try(func(q *Plan) { q.Conns[i].OpenAct = 0 })
		}
		if cp.CloseAct != 0 {
			try(func(q *Plan) { q.Conns[i].CloseAct = 0 })
		}
		if len(cp.CloseW) > 0 {
			try(func(q *Plan) { q.Conns[i].CloseW = nil })
		}
		if cp.CloseAgain != 0 {
			try(func(q *Plan) { q.Conns[i].CloseAgain = 0 })
		}
		for j := range cp.Peer {
			j := j
			try(func(q *Plan) { q.Conns[i].Peer = append(q.Conns[i].Peer[:j], q.Conns[i].Peer[j+1:]...) })
			if cp.Peer[j].N > 1 {
				for _, v := range []int{1, cp.Peer[j].N / 2, cp.Peer[j].N - 1} {
					v := v
					try(func(q *Plan) { q.Conns[i].Peer[j].N = v })
				}
			}
			if len(cp.Peer[j].Segs) > 0 {
				try(func(q *Plan) { q.Conns[i].Peer[j].Segs = nil })
			}
		}
		if len(cp.Traffic) > 0 {
			try(func(q *Plan) { q.Conns[i].Traffic = q.Conns[i].Traffic[:len(cp.Traffic)-1] })
		}
		for j, ts := range cp.Traffic {
			j := j
			try(func(q *Plan) { q.Conns[i].Traffic = append(q.Conns[i].Traffic[:j], q.Conns[i].Traffic[j+1:]...) })
			for x := range ts.R {
				x := x
				try(func(q *Plan) { t := &q.Conns[i].Traffic[j]; t.R = append(t.R[:x], t.R[x+1:]...) })
				if ts.R[x].N > 1 {
					try(func(q *Plan) { q.Conns[i].Traffic[j].R[x].N = ts.R[x].N / 2 })
				}
			}
			for x := range ts.W {
				x := x
				try(func(q *Plan) { t := &q.Conns[i].Traffic[j]; t.W = append(t.W[:x], t.W[x+1:]...) })
				if ts.W[x].N > 1 {
					try(func(q *Plan) { q.Conns[i].Traffic[j].W[x].N = ts.W[x].N / 2 })
					try(func(q *Plan) { q.Conns[i].Traffic[j].W[x].N = 1 })
				}
				if len(ts.W[x].Segs) > 1 {
					try(func(q *Plan) { s := q.Conns[i].Traffic[j].W[x].Segs; q.Conns[i].Traffic[j].W[x].Segs = s[:len(s)/2] })
				}
			}
			if ts.Act != 0 {
				try(func(q *Plan) { q.Conns[i].Traffic[j].Act = 0 })
			}
			if ts.CloseSelf {
				try(func(q *Plan) { q.Conns[i].Traffic[j].CloseSelf = false })
			}
			if ts.WakeSelf {
				try(func(q *Plan) { q.Conns[i].Traffic[j].WakeSelf = false })
			}
		}
	}
	for ui, up := range p.Users {
		ui := ui
		for j := range up.Ops {
			j := j
			try(func(q *Plan) { q.Users[ui].Ops = append(q.Users[ui].Ops[:j], q.Users[ui].Ops[j+1:]...) })
			if up.Ops[j].N > 1 {
				try(func(q *Plan) { q.Users[ui].Ops[j].N = 1 })
			}
		}
	}
	return out
}
