package vsim

import (
	"context"
	"errors"
	"fmt"
	"net"

	gnet "github.com/panjf2000/gnet/v2"
	"golang.org/x/sys/unix"

	"verif/sim/vsched"
)

func (w *World) newAsync(kind string, conn, user int) int {
	r := &asyncRec{id: len(w.asyncs), kind: kind, conn: conn, user: user}
	w.asyncs = append(w.asyncs, r)
	return r.id
}

func (w *World) asyncIssued(id int, err error) {
	r := w.asyncs[id]
	r.issued, r.err = true, err
	if err == nil {
		// reach: how many accepted requests were waiting when this one was accepted
		pending := 0
		for _, o := range w.asyncs {
			if o.issued && o.err == nil && o.cbCount == 0 {
				pending++
			}
		}
		switch {
		case pending >= 32:
			w.probes["requests-pending>=32-at-issue"]++
		case pending >= 8:
			w.probes["requests-pending>=8-at-issue"]++
		case pending >= 3:
			w.probes["requests-pending>=3-at-issue"]++
		}
	}
	w.logf("async %d %s conn=%d issued err=%v", id, r.kind, r.conn, err != nil)
}

// asyncDone is the callback of Wake / CloseWithCallback.
func (w *World) asyncDone(id int, c gnet.Conn, err error) {
	r := w.asyncs[id]
	r.cbCount++
	w.execCounter++
	r.execSeq = w.execCounter
	r.cbErr = err
	r.cbTask = vsched.CurrentName()
	w.probes["async-executed"]++
	w.logf("async %d %s conn=%d callback #%d err=%v task=%s", id, r.kind, r.conn, r.cbCount, err != nil, r.cbTask)
	if r.cbCount > 1 {
		w.violate("C03", "callback-twice", "%s request %d on conn %d: callback invoked %d times", r.kind, id, r.conn, r.cbCount)
	}
	if w.runDone {
		w.violate("C06", "callback-after-return", "%s callback ran after Run had returned", r.kind)
	}
	cs := w.conns[r.conn]
	if cs == nil {
		return
	}
	if cs.task != "" && r.cbTask != cs.task {
		w.violate("C05", "callback-wrong-loop", "%s callback for conn %d ran on task %s, the connection belongs to %s", r.kind, r.conn, r.cbTask, cs.task)
	}
	if r.kind == "wake" {
		delta := cs.extraTraf - cs.afterClose // OnTraffic without new kernel bytes seen so far
		_ = delta
	}
}

// asyncWriteDone is the callback of AsyncWrite / AsyncWritev: the moment the
// operation takes effect in the connection's write order.
func (w *World) asyncWriteDone(aid int, cs *connState, opID, n int, c gnet.Conn, err error) {
	w.asyncDone(aid, c, err)
	if err == nil {
		if cs.closed {
			w.violate("C04", "write-after-close-accepted", "conn %d: an asynchronous write completed without error after OnClose", cs.idx)
			return
		}
		if cs.inOnClose {
			cs.tail = append(cs.tail, wEntry{id: opID, n: n})
			return
		}
		cs.W = append(cs.W, wEntry{id: opID, n: n})
		cs.wBytes += n
		return
	}
	if !errors.Is(err, net.ErrClosed) && cs.failed == nil {
		// the write itself failed (not: the connection had been closed before):
		// a proper prefix may be on the wire, the connection closes
		cs.failed = &wEntry{id: opID, n: n}
		cs.peerCause = true
	}
}

func (w *World) waitConn(idx int, late bool) *connState {
	vsched.Block("user:wait-conn", func() bool {
		if w.ph >= phShutdown || w.runDone {
			return true
		}
		if idx >= len(w.conns) {
			return true
		}
		cs := w.conns[idx]
		if late {
			return cs != nil && cs.closed || w.peers[idx].refused
		}
		return cs != nil && cs.opened || w.peers[idx].refused
	})
	if idx >= len(w.conns) {
		return nil
	}
	cs := w.conns[idx]
	if cs == nil || !cs.opened {
		return nil
	}
	if late && !cs.closed {
		return nil
	}
	vsched.Acquire(&cs.pub)
	return cs
}

func (w *World) userBody(ui int) {
	defer func() { w.usersDone++ }()
	up := &w.p.Users[ui]
	seq := 0
	for oi := range up.Ops {
		op := &up.Ops[oi]
		vsched.Acquire(&w.pubEng)
		if w.runDone {
			// after Run has returned only the control API is exercised: it must
			// answer with the in-shutdown error / -1 and have no effect
			switch op.K {
			case "validate", "countx", "dup", "duplistener", "duplistener-bad", "register-none", "stopctx", "await-stop", "loop-misuse":
			default:
				continue
			}
		}
		switch op.K {
		case "flood":
			// keeps the urgent queue of one loop busy until the engine has stopped:
			// a shutdown must get through regardless
			cs := w.waitConn(op.Conn, false)
			if cs == nil {
				continue
			}
			w.floodUsers++
			w.probes["flood-until-stop"]++
			for i := 0; i < 20000 && !w.runDone && w.ph < phPost; i++ {
				id := w.newOpID()
				data := outPayload(id, 1)
				aid := w.newAsync("asyncwrite", cs.idx, ui)
				seq++
				w.asyncs[aid].seq = seq
				err := cs.c.AsyncWrite(data, func(c gnet.Conn, err error) error {
					defer vsched.Restore(vsched.EnterHarness())
					w.asyncWriteDone(aid, cs, id, 1, c, err)
					return nil
				})
				w.asyncIssued(aid, err)
				vsched.Yield("user:flood")
			}
			continue
		case "await-stop":
			vsched.Block("user:await-stop", func() bool { return w.runDone })
			w.probes["control-after-stop-armed"]++
			continue
		case "pause":
			for i := 0; i < max(1, op.N); i++ {
				vsched.Yield("user:pause")
			}
			continue
		case "count":
			w.userCount()
			continue
		case "validate", "countx", "dup", "duplistener", "duplistener-bad", "register-none", "stopctx", "loop-misuse":
			w.userControl(ui, op)
			continue
		case "register", "enroll", "enroll-other", "enroll-loop", "register-loop":
			w.userRegister(ui, op)
			continue
		case "cdial", "cenroll":
			w.userClientDial(ui, op)
			continue
		case "stop":
			if !w.booted {
				vsched.Block("user:wait-boot", func() bool { return w.booted || w.runDone })
			}
			if !w.stopRequested {
				w.stopRequested = true
				w.markLocalAll()
			}
			ctx := context.Background()
			vsched.Acquire(&w.pubEng)
			err := w.eng.Stop(ctx)
			vsched.Yield("post-block")
			w.logf("user%d Stop -> %v", ui, err)
			continue
		}
		cs := w.waitConn(op.Conn, op.Late)
		if cs == nil {
			continue
		}
		c := cs.c
		seq++
		if cs.udp && op.K != "wake" && op.K != "execute" && !(cs.cp.Dial && (op.K == "close" || op.K == "closecb")) {
			continue // (a connected UDP socket of a client can be closed like any connection)
		}
		switch op.K {
		case "asyncwrite":
			id := w.newOpID()
			data := outPayload(id, op.N)
			aid := w.newAsync("asyncwrite", cs.idx, ui)
			w.asyncs[aid].seq = seq
			err := c.AsyncWrite(data, func(c gnet.Conn, err error) error {
				defer vsched.Restore(vsched.EnterHarness())
				w.asyncWriteDone(aid, cs, id, op.N, c, err)
				scribble(data)
				return nil
			})
			w.asyncIssued(aid, err)
		case "asyncwritev":
			id := w.newOpID()
			total := 0
			for _, s := range op.Segs {
				total += s
			}
			data := outPayload(id, total)
			var bs [][]byte
			off := 0
			for _, s := range op.Segs {
				bs = append(bs, data[off:off+s])
				off += s
			}
			aid := w.newAsync("asyncwritev", cs.idx, ui)
			w.asyncs[aid].seq = seq
			err := c.AsyncWritev(bs, func(c gnet.Conn, err error) error {
				defer vsched.Restore(vsched.EnterHarness())
				w.asyncWriteDone(aid, cs, id, total, c, err)
				scribble(data)
				return nil
			})
			w.asyncIssued(aid, err)
		case "broadcastv":
			// one batch ([][]byte) handed to AsyncWritev of two connections: the batch is
			// the application's, it must still be what the application built when the
			// second connection sends it (a short write on the first one must not eat into it)
			cs2 := w.waitConn(op.To2-1, false)
			if cs2 == nil || cs2 == cs || cs2.udp {
				continue
			}
			id := w.newOpID()
			total := 0
			for _, s := range op.Segs {
				total += s
			}
			data := outPayload(id, total)
			var bs [][]byte
			off := 0
			for _, s := range op.Segs {
				bs = append(bs, data[off:off+s])
				off += s
			}
			w.probes["batch-given-to-two-connections"]++
			pending := 2
			for _, t := range []*connState{cs, cs2} {
				t := t
				aid := w.newAsync("asyncwritev", t.idx, ui)
				w.asyncs[aid].seq = seq
				err := t.c.AsyncWritev(bs, func(c gnet.Conn, err error) error {
					defer vsched.Restore(vsched.EnterHarness())
					w.asyncWriteDone(aid, t, id, total, c, err)
					if pending--; pending == 0 {
						scribble(data)
					}
					return nil
				})
				w.asyncIssued(aid, err)
				if err != nil {
					pending--
				}
			}
		case "safectx":
			// SetSafeContext / SafeContext / Fd from a goroutine of the application
			w.safeCtxOps(cs, c, op.N, 100+ui)
		case "wake":
			aid := w.newAsync("wake", cs.idx, ui)
			if !cs.closed {
				cs.wakesDue++
			}
			var err error
			if op.N%2 == 1 {
				// Wake without a callback: still one OnTraffic per accepted call
				err = c.Wake(nil)
				w.asyncs[aid].cbCount = -1
				w.probes["wake-without-callback"]++
			} else {
				err = c.Wake(func(c gnet.Conn, err error) error {
					defer vsched.Restore(vsched.EnterHarness())
					w.asyncDone(aid, c, err)
					return nil
				})
			}
			w.asyncIssued(aid, err)
			if err != nil && !cs.closed {
				cs.wakesDue--
			}
		case "close":
			cs.localReq = true
			aid := w.newAsync("close", cs.idx, ui)
			err := c.Close()
			w.asyncIssued(aid, err)
			w.asyncs[aid].cbCount = -1 // no callback for plain Close
		case "closecb":
			cs.localReq = true
			aid := w.newAsync("closecb", cs.idx, ui)
			err := c.CloseWithCallback(func(c gnet.Conn, err error) error {
				defer vsched.Restore(vsched.EnterHarness())
				w.asyncDone(aid, c, err)
				return nil
			})
			w.asyncIssued(aid, err)
		case "execute":
			aid := w.newAsync("execute", cs.idx, ui)
			err := c.EventLoop().Execute(context.Background(), gnet.RunnableFunc(func(ctx context.Context) error {
				defer vsched.Restore(vsched.EnterHarness())
				w.asyncDone(aid, nil, nil)
				return nil
			}))
			w.asyncIssued(aid, err)
		default:
			panic("unknown user op " + op.K)
		}
	}
}

// userCount calls CountConnections and compares it with opened-closed when
// nothing moved while the call ran. Several application tasks may be inside
// the call at once: each has its own watch.
func (w *World) userCount() {
	if !w.booted || w.runDone {
		return
	}
	cw := &countWatch{lo: w.openedN - w.closedN, hi: w.openedN - w.closedN}
	pendingBefore := w.pendingRegs()
	for _, v := range w.loopTasks {
		pendingBefore += v
	}
	w.countWatchers = append(w.countWatchers, cw)
	n := w.eng.CountConnections()
	for i, x := range w.countWatchers {
		if x == cw {
			w.countWatchers = append(w.countWatchers[:i], w.countWatchers[i+1:]...)
			break
		}
	}
	w.logf("CountConnections=%d window=[%d,%d] moved=%v", n, cw.lo, cw.hi, cw.moved)
	if n == -1 && (w.stopRequested || w.runDone || w.stopEverAsked) {
		return
	}
	// the call sums per-loop counters one after the other: it is only comparable
	// with opened-closed when nothing moved while it ran (no open or close, no
	// callback in flight, no connection between accept and OnOpen)
	inflight := 0
	for _, v := range w.loopTasks {
		inflight += v
	}
	// a connection whose close has a cause already (requested locally, peer gone,
	// fault) may be anywhere between its removal from the registry and its OnClose
	closing := 0
	for _, cs := range w.conns {
		if cs != nil && cs.opened && !cs.closed && !cs.udp {
			ps := w.peers[cs.idx]
			if cs.localReq || cs.peerCause || cs.failed != nil || ps.closedByPeer || cs.sock.PeerSawFinOrErr() || cs.sock.PeerGone() || w.faultTouched(cs) {
				closing++
			}
		}
	}
	if cw.moved || inflight > 0 || w.pendingRegs() > 0 || pendingBefore > 0 || closing > 0 {
		w.probes["count-calls-overlapping-changes"]++
		return
	}
	w.probes["count-calls-exact"]++
	if n != cw.lo {
		w.violate("C04", "count", "CountConnections()=%d with nothing in flight while %d connections have been opened and not closed", n, cw.lo)
	}
}

type countWatch struct {
	lo, hi int
	moved  bool
}

// pendingRegs: connections accepted by the kernel whose OnOpen has not run yet
// (registered-but-not-opened is invisible to the handler).
func (w *World) pendingRegs() int {
	n := 0
	for _, ps := range w.peers {
		if ps.connected && w.conns[ps.idx] == nil {
			n++
		}
	}
	return n
}

func (w *World) countChanged() {
	c := w.openedN - w.closedN
	for _, cw := range w.countWatchers {
		cw.moved = true
		cw.lo, cw.hi = min(cw.lo, c), max(cw.hi, c)
	}
}

func sockaddrMatches(a net.Addr, sa unix.Sockaddr) bool {
	switch s := sa.(type) {
	case *unix.SockaddrInet4:
		t, ok := a.(*net.TCPAddr)
		return ok && t.Port == s.Port && t.IP.Equal(net.IP(s.Addr[:]))
	case *unix.SockaddrInet6:
		t, ok := a.(*net.TCPAddr)
		return ok && t.Port == s.Port && t.IP.Equal(net.IP(s.Addr[:]))
	case *unix.SockaddrUnix:
		t, ok := a.(*net.UnixAddr)
		return ok && t.Name == s.Name
	}
	return false
}

var _ = errors.New
var _ = fmt.Sprint

// Values for Conn.SetSafeContext: two dynamic types, so that a value put
// together from the type of one store and the data of another is not a value
// anybody stored.
type safeA struct{ who, n int }
type safeB struct {
	n   int
	who string
}

// safeCtxOps calls the context accessors that are documented as safe for
// concurrent use (from a callback or from any goroutine) and checks that what
// SafeContext returns is a value that was stored for this connection.
func (w *World) safeCtxOps(cs *connState, c gnet.Conn, n, who int) {
	w.probes["safe-context-calls"]++
	check := func(v any) {
		if v == nil {
			return
		}
		for _, s := range cs.safeVals {
			if s == v {
				return
			}
		}
		if len(cs.safeVals) == 0 {
			return // what Enroll / Register attached on the connection's behalf
		}
		switch v.(type) {
		case *safeA, *safeB:
			w.violate("C05", "safe-context-value", "conn %d: SafeContext returned %T %v, which nobody stored for this connection", cs.idx, v, v)
		}
	}
	check(c.SafeContext())
	if n%2 == 0 {
		var v any = &safeA{who, len(cs.safeVals)}
		if n%4 == 2 {
			v = &safeB{len(cs.safeVals), fmt.Sprint(who)}
		}
		cs.safeVals = append(cs.safeVals, v)
		c.SetSafeContext(v)
	}
	_ = c.Fd()
	check(c.SafeContext())
}

// safeCtxConn: some application goroutine uses the safe-context accessors of this connection.
func (w *World) safeCtxConn(idx int) bool {
	for _, u := range w.p.Users {
		for _, op := range u.Ops {
			if op.K == "safectx" && op.Conn == idx {
				return true
			}
		}
	}
	return false
}
