package vsim

import (
	"context"
	"errors"
	"fmt"
	"net"
	"sort"
	"strings"
	"testing"
	"testing/synctest"
	"time"
	"verif/sim/vpool"

	gnet "github.com/panjf2000/gnet/v2"
	"golang.org/x/sys/unix"

	"verif/sim/racelog"
	"verif/sim/runner"
	"verif/sim/vnet"
	"verif/sim/vsched"
	"verif/sim/vsys"
)

type phase int

const (
	phWorkload phase = iota
	phDrain
	phShutdown
	phPost
	phDone
)

type wEntry struct {
	id, n int
	raw   []byte // the exact bytes when they are not the generated payload of operation id (an echo)
}

// connState is what the harness knows about one connection object.
type connState struct {
	held         []byte // slice returned by the last Next/Peek, valid until the next read-type call
	heldOff      int
	heldWhat     string
	peeks        []heldSlice // results of earlier Peeks that no consuming call has voided yet
	idx          int
	cp           *ConnPlan
	c            gnet.Conn
	sock         *vsys.Sock // framework-side endpoint
	fd           int
	gen          int
	task         string
	opened       bool
	closed       bool
	closeErr     error
	nTraffic     int
	consumed     int // inbound stream offset consumed by the handler
	offered      int // highest K-in seen at a callback entry
	W            []wEntry
	wBytes       int
	failed       *wEntry // a write operation that failed: a proper prefix of it may be on the wire
	localReq     bool    // a local close cause was requested before OnClose ran
	peerCause    bool    // a peer/I-O close cause existed before OnClose ran
	inCB         bool
	faulted      bool
	inOnClose    bool
	tail         []wEntry // best-effort writes issued inside OnClose
	udp          bool
	wakesDue     int // Wake requests accepted and not yet seen as OnTraffic
	extraTraf    int
	afterClose   int
	addrStr      string
	udpOpenReply []byte // what OnOpen returned for a connected UDP socket, until checked
	udpOpenAt    int
	pub          int32 // race flavour: released by the connection's loop where the application would hand the connection on, acquired by whoever uses it from elsewhere
	safeVals     []any // values handed to SetSafeContext for this connection
}

type peerState struct {
	regOutsideRunning bool // Register/Enroll was called while the engine was not (yet) fully running
	idx               int
	cp                *ConnPlan
	cli               *vsys.Sock // harness endpoint
	srv               *vsys.Sock
	pc                int
	rem               int // remaining bytes of the current send/recv op
	sent              int // inbound stream bytes put on the wire so far
	rx                []byte
	auto              bool // reads everything as it arrives
	done              bool
	closedByPeer      bool
	connected         bool
	refused           bool
	startNow          bool
	dialFd            int
	dialAsked         bool
	udpKey            string
	udpRemote         unix.Sockaddr
	udpSeen           int
	udpEmpty          bool
	udpUnreach        bool // the remote port of this connected UDP socket is gone (ICMP errors)
	udpSizes          map[int]int
}

type asyncRec struct {
	id      int
	kind    string
	conn    int
	issued  bool
	err     error // error returned by the call
	cbCount int
	cbErr   error
	cbTask  string
	user    int
	seq     int // issue order within the user
	execAt  int
	execSeq int // global order in which the callbacks ran
}

// World is the state of one simulated run.
type World struct {
	t      *testing.T
	p      *Plan
	prop   string
	s      *vsched.Sched
	k      *vsys.Kernel
	h      runner.Hasher
	ph     phase
	viol   map[string]*runner.Violation // by property
	order  []string
	probes map[string]int
	faults map[string]int

	eng                      gnet.Engine
	booted                   bool
	bootCount, shutdownCount int
	runDone                  bool
	runErr                   error
	runDoneStep              int
	stopRequested            bool
	stopReturned             bool
	stopErr                  error
	addr                     string
	listenKey                string

	conns     []*connState // by plan index (nil until accepted)
	byConn    map[gnet.Conn]*connState
	peers     []*peerState
	nextOp    int
	asyncs    []*asyncRec
	usersDone int

	loopTasks        map[string]int // task name -> callbacks in flight (nesting check)
	inCall           map[string]int // task -> the handler is inside a call into the framework (a nested OnClose is legal)
	stopFailed       int
	stopEventUsed    bool
	stopEverAsked    bool
	started          bool
	regLost          []string
	stopCallsPending int       // Engine.Stop calls of application tasks that have not returned
	runDoneAt        time.Time // simulated time at which Run returned
	tickIdx          int
	races            []runner.Violation // race flavour: reports of the race detector attributed to the code under test
	sibEng           gnet.Engine        // the older engine under the same address (plans with cfg.sibling)
	sibBooted        bool
	sibParked        bool // its Run waits for the shutdown (it has registered itself)
	mainParked       bool
	sibDone          bool
	sibGone          bool
	loopOf           gnet.EventLoop // the EventLoop of some connection, as the application got it in OnOpen
	loopOfConn       *connState
	pubEng           int32 // race flavour: released when the application has its Engine / Client handle, acquired by its other goroutines
	stopAskedStep    int
	floodUsers       int // application tasks that issue asynchronous writes until Run returns
	spinSeen         bool
	execCounter      int
	stopCtxErrSeen   bool
	lcSnap           map[int]map[string]int
	udp              *udpState
	udpDrained       bool
	cli              *gnet.Client
	clientStop       bool
	clientCalls      int
	userFds          []int
	dialQueue        []int
	stopPending      int
	nestedHandled    bool
	otherShutdown    bool // a Shutdown action was returned by a callback
	nestedShutdown   int  // Shutdown actions returned by an OnClose that ran nested inside a handler call
	cbAfterReturn    int
	openedN, closedN int
	countWatchers    []*countWatch
	postRounds       int
	shutdownIdle     int
	tickCount        int
	log              func(string)
	simNanos         int64
}

func payloadIn(conn, off int) byte { return byte(conn*37 + off*113 + (off>>8)*29 + 11) }
func payloadOut(op, i int) byte    { return byte(op*53 + i*151 + (i>>8)*31 + 7) }

func (w *World) violate(prop, key, format string, a ...any) {
	if w.viol[prop] == nil {
		w.viol[prop] = &runner.Violation{Key: prop + "/" + key, Msg: fmt.Sprintf(format, a...)}
		w.order = append(w.order, prop)
		w.h.Add("VIOLATION " + prop + "/" + key)
	}
	// C18: with faults injected, a broken guarantee of any of the stream,
	// lifecycle, shutdown or descriptor monitors is a failure-isolation
	// violation (the monitors themselves exempt a victim from completeness)
	if len(w.p.Faults) > 0 && w.viol["C18"] == nil {
		switch prop {
		case "C01", "C02", "C04", "C05", "C06", "C07", "C08":
			w.viol["C18"] = &runner.Violation{Key: "C18/" + prop + "/" + key, Msg: "with fault " + faultDesc(w.p.Faults) + ": " + fmt.Sprintf(format, a...)}
			w.order = append(w.order, "C18")
		}
	}
}

func faultDesc(fs []vsys.Fault) string {
	s := ""
	for _, f := range fs {
		s += fmt.Sprintf("[%s #%d on %s -> %s]", f.Site, f.Nth, f.Class, unix.ErrnoName(unix.Errno(f.Errno)))
	}
	return s
}

func (w *World) logf(format string, a ...any) { w.h.Add(fmt.Sprintf(format, a...)) }

// Execute runs one plan inside a fresh bubble.
func Execute(t *testing.T, p *Plan, prop string) (out runner.Outcome) {
	if vsched.RaceEnabled && p.Cfg.LB == 0 && usesEngineRegister(p) {
		// Engine.Register is documented as racy under the default Round-Robin policy
		// ("switch to another load-balancing algorithm ... to avoid data race issue if
		// you plan on calling this method"): an application that minds the data-race
		// detector follows that advice
		p = clonePlan(p)
		p.Cfg.LB = 1
	}
	w := &World{t: t, p: p, prop: prop, viol: map[string]*runner.Violation{}, probes: map[string]int{}, faults: map[string]int{},
		byConn: map[gnet.Conn]*connState{}, loopTasks: map[string]int{}, inCall: map[string]int{}}
	defer func() {
		// the end-of-bubble deadlock panic (goroutines still blocked) is
		// reported by synctest as a test failure path; keep the verdict
		if r := recover(); r != nil {
			w.violate("HARNESS", "bubble", "bubble ended abnormally: %v", r)
		}
		out = w.outcome()
	}()
	if vsched.RaceEnabled {
		// a report of the race detector fails the bubble's test and synctest.Test
		// then ends the calling test (FailNow): give it a test of its own to end
		t.Run("run", func(t2 *testing.T) {
			defer func() {
				if r := recover(); r != nil {
					w.violate("HARNESS", "bubble", "bubble ended abnormally: %v", r)
				}
			}()
			synctest.Test(t2, func(t *testing.T) { w.run() })
		})
		return
	}
	synctest.Test(t, func(t *testing.T) { w.run() })
	return
}

func (w *World) outcome() runner.Outcome {
	o := runner.Outcome{Probes: w.probes, Faults: w.faults, LogHash: w.h.Sum()}
	if w.s != nil {
		o.Steps = w.s.Step()
		o.SimNanos = w.simNanos
		o.Signature = w.s.Signature()
		o.Decisions = w.s.Recorded
	}
	if v := w.viol[w.prop]; v != nil {
		o.Violation = v
		if w.prop == "C05" {
			o.Alt = w.races
		}
	} else if w.prop == "C05" && len(w.races) > 0 {
		o.Violation, o.Alt = &w.races[0], w.races[1:]
	} else if v := w.viol["HARNESS"]; v != nil {
		o.Inconcl = true
		o.Note = v.Key + ": " + v.Msg
	}
	o.NonTrivial = w.nonTrivial()
	if runner.Trace {
		for _, l := range w.h.Log {
			fmt.Println("  |", l)
		}
		for _, p := range w.order {
			fmt.Println("  VIOLATION", w.viol[p].Key, "--", w.viol[p].Msg)
		}
	}
	return o
}

func (w *World) nonTrivial() bool {
	switch w.prop {
	case "C01":
		return w.probes["leftover-present"] > 0 || w.probes["partial-consumption"] > 0 || w.probes["data+FIN-in-one-arrival"] > 0
	case "C02":
		return w.probes["write-EAGAIN"]+w.probes["write-short"] > 0
	case "C03":
		return w.probes["async-executed"] > 0 && w.s != nil && w.s.Contended > 5
	case "C04":
		return w.closedN > 0
	case "C06":
		return w.openedN > 0
	case "C07":
		return w.probes["fd-number-reused"] > 0 || w.closedN > 0
	case "C19":
		return w.probes["control-calls"] > 0
	case "C08":
		return w.probes["udp-datagrams-handled"] > 1 || w.probes["udp-client-datagrams"] > 0
	case "C14":
		return w.probes["registry-snapshots"] > 2 && w.closedN > 0
	case "C15":
		return w.probes["lb-sequences-checked"]+w.probes["lc-checks"] > 0 && w.openedN > 1
	case "C17":
		return w.probes["address-checks"] > 1
	case "C12":
		return w.probes["held-slice-rechecks"] > 0
	case "C18":
		n := 0
		for _, v := range w.faults {
			n += v
		}
		return n > 0 && w.openedN > 1
	}
	return w.openedN > 0
}

type recLogger struct{ w *World }

func (l recLogger) Debugf(format string, args ...any) {}
func (l recLogger) Infof(format string, args ...any)  {}
func (l recLogger) Warnf(format string, args ...any) {
	defer vsched.Restore(vsched.EnterHarness())
	l.w.probes["log-warn"]++
}
func (l recLogger) Errorf(format string, args ...any) {
	defer vsched.Restore(vsched.EnterHarness())
	l.w.probes["log-error"]++
}
func (l recLogger) Fatalf(format string, args ...any) {
	defer vsched.Restore(vsched.EnterHarness())
	l.w.violate("HARNESS", "fatalf", "logger.Fatalf: "+format, args...)
}

func (w *World) options() []gnet.Option {
	c := w.p.Cfg
	opts := []gnet.Option{gnet.WithLogger(recLogger{w}), gnet.WithNumEventLoop(max(1, c.Loops)), gnet.WithLoadBalancing(gnet.LoadBalancing(c.LB))}
	if c.Chunk > 0 {
		opts = append(opts, gnet.WithEdgeTriggeredIOChunk(c.Chunk))
	} else if c.ET {
		opts = append(opts, gnet.WithEdgeTriggeredIO(true))
	}
	if c.ReusePort {
		opts = append(opts, gnet.WithReusePort(true))
	}
	if c.ReadBuf > 0 {
		opts = append(opts, gnet.WithReadBufferCap(c.ReadBuf))
	}
	if c.WriteBuf > 0 {
		opts = append(opts, gnet.WithWriteBufferCap(c.WriteBuf))
	}
	if c.SndBuf > 0 {
		opts = append(opts, gnet.WithSocketSendBuffer(c.SndBuf))
	}
	if c.KeepAlive > 0 {
		opts = append(opts, gnet.WithTCPKeepAlive(time.Duration(c.KeepAlive)*time.Second))
	}
	if c.Ticker {
		opts = append(opts, gnet.WithTicker(true))
	}
	return opts
}

func (w *World) protoAddr() (string, string) {
	c := w.p.Cfg
	switch c.Network {
	case "unix":
		return "unix://" + c.Host, "unix:" + c.Host
	default:
		pa := fmt.Sprintf("%s://%s:9000", c.Network, c.Host)
		if c.Network == "udp6" {
			pa = fmt.Sprintf("udp://%s:9000", c.Host)
		}
		// the bind key is computed by the kernel from the sockaddr gnet builds
		return pa, ""
	}
}

func (w *World) run() {
	p := w.p
	cfg := vsched.Config{Seed: p.Seed, Strategy: p.Cfg.Strategy, Quantum: p.Cfg.Quantum, PCTDepth: p.Cfg.PCTDepth, MaxSteps: p.Cfg.MaxSteps, OffSites: p.Cfg.OffSites, Decisions: p.Sched}
	if cfg.MaxSteps <= 0 {
		cfg.MaxSteps = 60000
	}
	w.probes["global-resets"] = vsched.ResetGlobals()
	vpool.ResetDoublePuts()
	s := vsched.New(cfg)
	defer s.Close()
	s.Record = true
	w.s = s
	k := vsys.New(p.Seed, s.Step, vsched.CurrentName)
	defer k.Deactivate()
	w.k = k
	if p.Cfg.FdBase > 0 {
		k.SetFdBase(p.Cfg.FdBase)
	}
	if p.Cfg.SndBuf > 0 {
		k.SndBuf = p.Cfg.SndBuf
	}
	if p.Cfg.RcvBuf > 0 {
		k.RcvBuf = p.Cfg.RcvBuf
	}
	k.OutThreshHalf = p.Cfg.OutHalf
	k.CanaryGrab = p.Cfg.CanaryPct
	k.ShortReadLT = p.Cfg.ShortLT
	if p.Cfg.EfdHigh {
		k.EfdStart = ^uint64(0) - 3
	}
	k.SetFaults(p.Faults)
	w.lcSnap = map[int]map[string]int{}
	w.udp = &udpState{ids: map[int]int{}, handled: map[int]int{}, lastRecv: map[string]int{}, readBuf: p.Cfg.ReadBuf}
	if w.udp.readBuf <= 0 {
		w.udp.readBuf = 65536
	}
	k.OnAccept = w.lcSnapshot
	k.Trace = func(l string) { w.h.Add(l) }
	if runner.Trace {
		s.Log = func(l string) { w.h.Log = append(w.h.Log, l) }
	}
	s.Events = w.events
	s.OnQuiescent = w.onQuiescent
	s.OnStep = w.onStep
	s.OnPanic = func(task string, v any, stack []byte) {
		site := panicSite(stack)
		w.violate(w.prop, "panic/"+site, "panic in task %s: %v\n%s", task, v, trimStack(stack))
		w.s.Stop("panic")
	}

	w.conns = make([]*connState, len(p.Conns))
	for i := range p.Conns {
		w.peers = append(w.peers, &peerState{idx: i, cp: &p.Conns[i]})
	}
	w.addr, w.listenKey = w.protoAddr()
	w.installDialHook()
	defer func() { vnet.DialHook = nil }()

	if p.Cfg.Sibling && !p.Cfg.Client {
		// an older engine under the same address (SO_REUSEPORT, e.g. the previous
		// generation of a restart): it starts first, is stopped through its own handle
		// once the engine under test runs, and must leave that one reachable for the
		// package-level Stop ("shuts down the last registered Engine")
		s.Go("sibling", func() {
			err := gnet.Run(&sibling{w}, w.addr, gnet.WithReusePort(true), gnet.WithNumEventLoop(1), gnet.WithLogger(recLogger{w}))
			w.logf("sibling engine returned err=%v", err)
			w.sibDone = true
		})
		s.Go("sibling-stop", func() {
			// (an engine is in the package-level registry once its Run has reached the
			// point where it waits for the shutdown: "registered last" is the one under test)
			vsched.Block("sibling:wait-main", func() bool { return w.mainParked && w.sibParked || w.runDone })
			if !w.sibBooted || w.runDone {
				return
			}
			ctx, cancel := context.WithTimeout(context.Background(), 30*time.Second)
			defer cancel()
			err := w.sibEng.Stop(ctx)
			vsched.Yield("post-block")
			w.logf("sibling stopped: %v", err)
			vsched.Block("sibling:wait-done", func() bool { return w.sibDone })
			w.sibGone = true
			w.probes["older-engine-under-the-same-address-stopped"]++
		})
	}
	s.Go("run", func() {
		if p.Cfg.Client {
			w.runClient()
			return
		}
		if p.Cfg.Sibling {
			vsched.Block("run:wait-sibling", func() bool { return w.sibParked || w.sibDone })
		}
		var err error
		if w.multi() {
			err = gnet.Rotate(&handler{w}, []string{w.addr, w.addr2()}, w.options()...)
		} else {
			err = gnet.Run(&handler{w}, w.addr, w.options()...)
		}
		w.runDone, w.runErr, w.runDoneStep = true, err, w.s.Step()
		w.runDoneAt = time.Now()
		w.logf("run returned err=%v", err)
	})
	for ui := range p.Users {
		ui := ui
		s.Go(fmt.Sprintf("user%d", ui), func() { w.userBody(ui) })
	}
	s.Loop()
	w.finish()
}

func panicSite(stack []byte) string {
	// first frame inside the code under test or the harness that is not runtime/vsched
	for _, l := range strings.Split(string(stack), "\n") {
		l = strings.TrimSpace(l)
		if strings.HasPrefix(l, "github.com/panjf2000/gnet/v2") {
			if i := strings.Index(l, "("); i > 0 {
				l = l[:i]
			}
			return strings.TrimPrefix(l, "github.com/panjf2000/gnet/v2")
		}
	}
	return "unknown"
}

func trimStack(stack []byte) string {
	ls := strings.Split(string(stack), "\n")
	if len(ls) > 40 {
		ls = ls[:40]
	}
	return strings.Join(ls, "\n")
}

// ---- events ----------------------------------------------------------------

func (w *World) events() []vsched.Event {
	var evs []vsched.Event
	if w.ph == phDone {
		return nil
	}
	if w.p.Cfg.Sibling && !w.sibGone {
		if st, _, _ := w.s.TaskState("sibling"); w.sibBooted && st == "goblocked" {
			w.sibParked = true
		}
		if st, _, _ := w.s.TaskState("run"); w.booted && st == "goblocked" {
			w.mainParked = true
		}
	}
	for _, ps := range w.peers {
		ps := ps
		if w.peerEnabled(ps) {
			evs = append(evs, vsched.Event{Name: fmt.Sprintf("peer%02d", ps.idx), Run: func() { w.peerStep(ps) }})
		}
		if ps.auto && ps.cli != nil && !ps.cli.Closed() && ps.cli.PeerAvail() > 0 {
			evs = append(evs, vsched.Event{Name: fmt.Sprintf("peer%02dr", ps.idx), Run: func() { w.peerRead(ps, 1<<30) }})
		}
	}
	for _, sk := range w.k.Socks() {
		sk := sk
		if !sk.Harness && sk.Deliverable() {
			evs = append(evs, vsched.Event{Name: fmt.Sprintf("net%03d", sk.ID), Run: func() {
				n := 1
				key := fmt.Sprintf("deliver:%d", sk.ID)
				if w.k.Draw(key, 3) == 0 {
					n = 1 + w.k.Draw(key+"n", sk.WireLen())
				}
				sk.Deliver(n)
				if cs := w.connOfSock(sk); cs != nil && (sk.PeerSawFinOrErr()) {
					cs.peerCause = true
				}
			}})
		}
	}
	if !w.stopRequested && !w.stopEventUsed && w.booted && (!w.p.Cfg.Sibling || w.sibGone) && w.p.Stop.AtStep > 0 && w.s.Step() >= w.p.Stop.AtStep && (w.p.Stop.Source == "engine.Stop" || w.p.Stop.Source == "gnet.Stop" || w.p.Stop.Source == "client.Stop") {
		evs = append(evs, vsched.Event{Name: "stop", Run: func() { w.stopEventUsed = true; w.requestStop() }})
	}
	if w.p.Cfg.Ticker && w.booted && !w.runDone && w.ph == phWorkload && w.tickIdx < len(w.p.Cfg.TickAt) && w.s.Step() >= w.p.Cfg.TickAt[w.tickIdx] {
		// simulated time passes: the ticker's timer fires and OnTick runs again
		evs = append(evs, vsched.Event{Name: "clock", Run: func() {
			w.tickIdx++
			w.probes["clock-advanced-during-workload"]++
			w.s.AdvanceClock(time.Duration(max(1, w.p.Cfg.TickMs))*time.Millisecond + time.Millisecond)
		}})
	}
	evs = append(evs, w.udpEvents()...)
	for _, fd := range w.k.Canaries() {
		fd := fd
		if w.s.Step()%8 == fd%8 {
			evs = append(evs, vsched.Event{Name: fmt.Sprintf("canary%d", fd), Run: func() { w.k.ReleaseCanary(fd) }})
		}
	}
	return evs
}

// inTransit: some connection has been accepted by the kernel (or is closing)
// without the handler having seen the matching callback yet.
func (w *World) inTransit() bool {
	for _, ps := range w.peers {
		if ps.connected && !ps.cp.Dial && w.conns[ps.idx] == nil && !ps.srv.Closed() {
			return true
		}
	}
	for _, n := range w.loopTasks {
		if n > 0 {
			return true
		}
	}
	return false
}

func (w *World) connOfSock(sk *vsys.Sock) *connState {
	for _, cs := range w.conns {
		if cs != nil && cs.sock != nil && cs.sock == sk {
			return cs
		}
	}
	return nil
}

func (w *World) requestStop() {
	if w.stopRequested {
		return
	}
	w.stopRequested = true
	w.logf("stop requested via %s at step %d", w.p.Stop.Source, w.s.Step())
	w.stopAskedStep = w.s.Step()
	if w.p.Cfg.Client {
		w.markLocalAll()
		w.clientStop = true
		return
	}
	for _, cs := range w.conns {
		if cs != nil && cs.opened && !cs.closed {
			cs.localReq = true
		}
	}
	n := 1
	if w.p.Stop.Double {
		n = 2
	}
	for i := 0; i < n; i++ {
		w.stopPending++
		w.s.Go("stopper", func() {
			ctx, cancel := context.WithTimeout(context.Background(), 30*time.Second)
			defer cancel()
			var err error
			vsched.Acquire(&w.pubEng)
			if w.p.Stop.Source == "gnet.Stop" {
				err = gnet.Stop(ctx, w.addr)
			} else {
				err = w.eng.Stop(ctx)
			}
			vsched.Yield("post-block")
			w.logf("stop returned %v", err)
			w.stopPending--
			if err != nil && !errors.Is(err, context.DeadlineExceeded) {
				// the request was refused (engine not registered yet / already stopped): it had no effect
				w.stopFailed++
				if !w.runDone && w.shutdownCount == 0 && w.stopPending == 0 && !w.stopReturned && !w.otherShutdown {
					w.stopRequested = false
				}
				return
			}
			if !w.stopReturned {
				w.stopReturned, w.stopErr = true, err
			}
		})
	}
}

// ---- peers ------------------------------------------------------------------

// magicAddrs: IPv4 peer addresses whose "ip:port" string has a CRC-32 (IEEE) at a
// boundary of the integer ranges a hash may be squeezed through: 0x80000000,
// 0x7fffffff, 0xffffffff, 0, 0x80000001 (found by exhaustive search over
// 10.0-15.x.y:1024-65535). The source-address-hash balancer hashes exactly
// that string.
var magicAddrs = []struct {
	ip   [4]byte
	port int
}{
	{[4]byte{10, 11, 0, 30}, 7612}, {[4]byte{10, 14, 11, 178}, 52527}, // 0x80000000
	{[4]byte{10, 1, 23, 52}, 62215}, {[4]byte{10, 3, 27, 108}, 2507}, // 0x7fffffff
	{[4]byte{10, 11, 49, 232}, 26968}, {[4]byte{10, 1, 59, 72}, 58989}, // 0xffffffff
	{[4]byte{10, 13, 5, 40}, 8143}, {[4]byte{10, 10, 38, 145}, 62551}, // 0
	{[4]byte{10, 11, 17, 246}, 59516}, // 0x80000001
}

func (w *World) peerAddr(i int) unix.Sockaddr {
	if i < len(w.p.Conns) && w.p.Cfg.Network == "tcp" {
		if m := w.p.Conns[i].Magic; m > 0 && m <= len(magicAddrs) {
			return &unix.SockaddrInet4{Port: magicAddrs[m-1].port, Addr: magicAddrs[m-1].ip}
		}
	}
	j := i
	if i < len(w.p.Conns) && w.p.Conns[i].AddrOf > 0 && w.p.Conns[i].AddrOf-1 < i {
		j = w.p.Conns[i].AddrOf - 1 // re-use the address of an earlier peer
	}
	switch w.p.Cfg.Network {
	case "unix":
		return &unix.SockaddrUnix{Name: ""}
	case "tcp6":
		sa := &unix.SockaddrInet6{Port: 40000 + j}
		if w.p.Cfg.Host == "[::1]" {
			copy(sa.Addr[:], net.ParseIP("::1").To16())
			return sa
		}
		// link-local peers: the zone id is the interface the packet came in on;
		// index 9 does not exist in the interface table
		copy(sa.Addr[:], net.ParseIP(fmt.Sprintf("fe80::%x", 2+j)).To16())
		sa.ZoneId = []uint32{2, 5, 9, 7}[j%4]
		return sa
	default:
		return &unix.SockaddrInet4{Port: 40000 + j, Addr: [4]byte{10, 0, byte(j >> 8), byte(j)}}
	}
}

// multi: the engine is started with Rotate on two listeners (the second one
// on another port, or a unix socket next to a tcp listener).
func (w *World) multi() bool {
	return w.p.Cfg.Listeners >= 2 && w.p.UDP == nil && !w.p.Cfg.Client && w.p.Cfg.Network != "unix"
}

func (w *World) addr2() string {
	if w.p.Cfg.Listeners == 3 {
		return "unix:///tmp/verif-sim-second.sock"
	}
	if w.p.Cfg.Listeners == 4 {
		return fmt.Sprintf("udp://%s:9002", w.p.Cfg.Host)
	}
	return fmt.Sprintf("%s://%s:9001", w.p.Cfg.Network, w.p.Cfg.Host)
}

// keyFor returns the listener a peer connects to: peers alternate between the
// listeners of a Rotate engine.
func (w *World) keyFor(i int) string {
	keys := w.k.ListenKeys()
	sort.Strings(keys)
	if len(keys) == 0 {
		return ""
	}
	if w.multi() {
		return keys[i%len(keys)]
	}
	return w.curKey()
}

func (w *World) curKey() string {
	if w.listenKey != "" {
		return w.listenKey
	}
	keys := w.k.ListenKeys()
	sort.Strings(keys)
	if len(keys) > 0 {
		return keys[0]
	}
	return ""
}

func (w *World) peerEnabled(ps *peerState) bool {
	if ps.done {
		return false
	}
	if !ps.connected {
		if ps.cp.Dial {
			return false // connected by a Register/Enroll call of a user task
		}
		if ps.refused || w.s.Step() < ps.cp.Start && !ps.startNow {
			return false
		}
		key := w.keyFor(ps.idx)
		if w.p.Cfg.Serial && w.inTransit() {
			return false
		}
		if w.p.Cfg.Sibling && !w.sibGone {
			return false // the older engine still listens on the same address
		}
		return key != "" && w.k.Listening(key) && w.booted
	}
	if ps.pc >= len(ps.cp.Peer) {
		return false
	}
	op := &ps.cp.Peer[ps.pc]
	if ps.cp.UDP {
		cs := w.conns[ps.idx]
		return cs != nil && cs.opened && !cs.closed
	}
	switch op.K {
	case "send":
		return ps.cli.PeerRoom() > 0 || ps.cli.Peer().Closed() || ps.cli.PeerSawReset()
	case "recv":
		return ps.cli.PeerAvail() > 0 || ps.cli.PeerSawFin()
	}
	return true
}

func (w *World) peerStep(ps *peerState) {
	if !ps.connected {
		key := w.keyFor(ps.idx)
		from := w.peerAddr(ps.idx)
		if len(key) > 5 && key[:5] == "unix:" {
			from = &unix.SockaddrUnix{Name: ""}
		}
		cli, err := w.k.PeerConnect(key, from)
		if err != nil {
			ps.refused, ps.done = true, true
			w.logf("peer%d connect refused", ps.idx)
			return
		}
		ps.connected, ps.cli, ps.srv = true, cli, cli.Peer()
		w.logf("peer%d connected sock=%d", ps.idx, ps.srv.ID)
		if len(ps.cp.Peer) == 0 {
			ps.auto = true
		}
		return
	}
	op := &ps.cp.Peer[ps.pc]
	adv := true
	if ps.cp.UDP {
		if op.K == "unreach" {
			// the remote port goes away: the next datagram the client sends is
			// answered by an ICMP port-unreachable (pending socket error, EPOLLERR)
			if cs := w.conns[ps.idx]; cs != nil && cs.opened && !cs.closed {
				if u := w.k.UDPOf(cs.fd); u != nil {
					u.Unreach = true
					ps.udpUnreach = true
					w.probes["udp-client-peer-unreachable"]++
					w.logf("peer%d udp remote port gone", ps.idx)
				}
			}
		}
		if op.K == "send" {
			id := w.k.UDPInjectCount() + 1
			payload := make([]byte, op.N)
			for i := range payload {
				payload[i] = dgramByte(id, i)
			}
			if ps.udpSizes == nil {
				ps.udpSizes = map[int]int{}
			}
			if got := w.k.UDPInject(ps.udpKey, payload, ps.udpRemote); got != 0 {
				ps.udpSizes[got] = op.N
			}
			if op.N == 0 {
				ps.udpEmpty = true // the default build reads client UDP sockets like streams: an empty datagram looks like EOF
			}
			w.logf("peer%d udp datagram %d bytes", ps.idx, op.N)
		}
		ps.pc++
		if ps.pc >= len(ps.cp.Peer) {
			ps.done = true
		}
		return
	}
	switch op.K {
	case "send":
		if ps.rem == 0 {
			ps.rem = op.N
		}
		if ps.cli.Peer().Closed() || ps.cli.PeerSawReset() || ps.cli.Closed() {
			ps.rem = 0
			break
		}
		n := min(ps.rem, ps.cli.PeerRoom())
		data := make([]byte, n)
		for i := range data {
			data[i] = payloadIn(ps.idx, ps.sent+i)
		}
		segs := op.Segs
		got := ps.cli.PeerSend(data, segs)
		ps.sent += got
		ps.rem -= got
		w.logf("peer%d send %d (sent=%d)", ps.idx, got, ps.sent)
		adv = ps.rem == 0
	case "recv":
		if ps.rem == 0 {
			ps.rem = max(1, op.N)
		}
		n := w.peerRead(ps, ps.rem)
		ps.rem -= n
		adv = ps.rem <= 0 || ps.cli.PeerSawFin()
		if adv {
			ps.rem = 0
		}
	case "drain":
		ps.auto = true
	case "shutw":
		ps.cli.PeerShutdownWrite()
		w.logf("peer%d shutw", ps.idx)
	case "close":
		w.peerRead(ps, 1<<30)
		ps.cli.PeerClose()
		ps.closedByPeer = true
		w.logf("peer%d close", ps.idx)
	case "abort":
		ps.cli.PeerAbort()
		ps.closedByPeer = true
		w.logf("peer%d abort", ps.idx)
	case "pause":
		if ps.rem == 0 {
			ps.rem = max(1, op.N)
		}
		ps.rem--
		adv = ps.rem == 0
	case "squeeze":
		ps.srv.Squeeze(true)
		w.faults["sndbuf-squeeze"]++
	case "unsqueeze":
		ps.srv.Squeeze(false)
	}
	if adv {
		ps.pc++
		if ps.pc >= len(ps.cp.Peer) {
			ps.done = true
			if !ps.cli.Closed() {
				ps.auto = true
			}
		}
	}
}

func (w *World) peerRead(ps *peerState, n int) int {
	if ps.cli == nil || n <= 0 {
		return 0
	}
	b := ps.cli.PeerRecv(n)
	ps.rx = append(ps.rx, b...)
	if len(b) > 0 {
		w.logf("peer%d recv %d (rx=%d)", ps.idx, len(b), len(ps.rx))
	}
	return len(b)
}

// ---- phases -----------------------------------------------------------------

func (w *World) allPeersDone() bool {
	for _, ps := range w.peers {
		if !ps.done {
			return false
		}
	}
	return true
}

func (w *World) onStep() {
	// run finished: nothing of the engine may move afterwards
	if w.runDone && w.ph < phPost {
		w.ph = phPost
	}
	// a task that retries a non-blocking call answered with EAGAIN hundreds of
	// times without ever going back to the poller is spinning: ask for the
	// shutdown (legal at any time); if the spin survives that, the run is ended
	// and the shutdown that cannot complete is the finding
	if w.k.SpinMax >= 500 && !w.spinSeen {
		w.spinSeen = true
		w.probes["busy-retry-detected"]++
		w.logf("busy retry: %s", w.k.SpinDesc)
		if !w.stopRequested && w.booted {
			w.requestStop()
		}
	}
	if w.spinSeen && w.k.SpinMax >= 3000 && w.s.StopWhy() == "" {
		w.s.Stop("spin")
	}
}

// onQuiescent: nothing is runnable. Decide what the phase requires.
func (w *World) onQuiescent(idle int) int {
	switch w.ph {
	case phWorkload:
		if w.p.Cfg.Sibling && w.sibBooted && !w.sibGone && !w.runDone && idle < 60 {
			// the older engine is being stopped: its Stop polls on a timer
			return vsched.QWait
		}
		if !w.booted && !w.runDone && idle > 3 {
			w.violate("HARNESS", "no-boot", "engine did not boot: %v", w.s.Alive())
			return vsched.QStop
		}
		// unblock peers that wait for something that will not come
		progressed := false
		for _, ps := range w.peers {
			if ps.done {
				continue
			}
			if !ps.connected && ps.cp.Dial {
				// never dialled: nothing to wait for
				ps.done = true
				progressed = true
				continue
			}
			if !ps.connected {
				if w.booted && !w.k.Listening(w.keyFor(ps.idx)) || w.runDone {
					ps.done, ps.refused = true, true
					progressed = true
				} else if w.booted && w.s.Step() < ps.cp.Start && !ps.startNow {
					ps.startNow = true // nothing else will happen before: connect now
					progressed = true
				}
				continue
			}
			if ps.pc < len(ps.cp.Peer) && !w.peerEnabled(ps) {
				// a recv that nothing satisfies, or a send into a full pipe nobody drains
				w.logf("peer%d skips blocked op %s", ps.idx, ps.cp.Peer[ps.pc].K)
				ps.rem = 0
				ps.pc++
				if ps.pc >= len(ps.cp.Peer) {
					ps.done = true
					ps.auto = true
				}
				progressed = true
			}
		}
		if progressed {
			return vsched.QAgain
		}
		if w.runDone {
			w.ph = phPost
			return vsched.QAgain
		}
		{
			w.ph = phDrain
			w.s.SetFair(true)
			for _, ps := range w.peers {
				if ps.cli != nil && !ps.cli.Closed() {
					ps.auto = true
				}
				if ps.srv != nil {
					ps.srv.Squeeze(false)
				}
			}
			w.logf("phase drain at step %d", w.s.Step())
			return vsched.QAgain
		}
	case phDrain:
		if w.runDone {
			w.ph = phPost
			return vsched.QAgain
		}
		w.drainOracles()
		if !w.stopRequested && !w.stopEverAsked && w.p.UDP != nil && w.udp.next >= len(w.p.UDP.Dgrams) {
			w.udpDrained = true
			w.udpFinal()
		}
		w.ph = phShutdown
		w.logf("phase shutdown at step %d", w.s.Step())
		if !w.stopRequested && w.booted {
			w.requestStop()
		}
		return vsched.QAgain
	case phShutdown:
		if w.runDone {
			w.ph = phPost
			return vsched.QAgain
		}
		w.shutdownIdle++
		if w.nestedShutdown > 0 && !w.otherShutdown && w.stopPending == 0 && !w.stopReturned && !w.nestedHandled {
			// the only shutdown request so far is a Shutdown action returned by an
			// OnClose that ran nested inside a handler call, and nothing happened
			w.violate("C06", "shutdown-action-dropped/nested-onclose", "OnClose returned Shutdown while it ran nested inside a call made by the handler (EventLoop.Close / failing Write / Flush); the engine did not shut down (alive: %v)", w.s.Alive())
			w.nestedHandled = true
			w.stopRequested = false
			w.shutdownIdle = 0
			w.requestStop()
			return vsched.QAgain
		}
		if w.shutdownIdle > 12 {
			w.violate("C06", "hang", "shutdown was requested (%s) but Run has not returned after the system went quiet %d times; alive: %v", w.p.Stop.Source, w.shutdownIdle, w.s.Alive())
			w.stopCtxHang()
			w.ph = phDone
			return vsched.QStop
		}
		return vsched.QWait
	case phPost:
		w.postRounds++
		if w.postRounds > 3 {
			w.ph = phDone
			return vsched.QStop
		}
		return vsched.QWait
	}
	return vsched.QStop
}

func (w *World) usersSettled() bool { return w.usersDone >= len(w.p.Users) }

func (w *World) finish() {
	w.logf("finish: phase=%d stop=%s steps=%d", w.ph, w.s.StopWhy(), w.s.Step())
	if w.spinSeen && !w.runDone && (w.s.StopWhy() == "spin" || w.s.StopWhy() == "step-cap") {
		w.violate("C06", "spin", "%s; the shutdown requested meanwhile never completed (OnShutdown calls: %d)", w.k.SpinDesc, w.shutdownCount)
	} else if w.s.StopWhy() == "step-cap" && w.floodUsers > 0 && w.stopAskedStep > 0 && !w.runDone && w.s.Step()-w.stopAskedStep > 25000 && w.p.Cfg.Strategy != "pct" && len(w.p.Faults) == 0 && w.stopFailed == 0 {
		// an application goroutine kept issuing asynchronous writes for as long as
		// the engine ran; the stop request was accepted 25000+ scheduler decisions
		// ago and Run still has not returned: the shutdown is not bounded under load
		w.violate("C06", "hang-under-load", "Stop was requested at step %d while an application goroutine keeps issuing AsyncWrite; %d scheduler steps later Run has not returned (OnShutdown calls: %d)", w.stopAskedStep, w.s.Step()-w.stopAskedStep, w.shutdownCount)
	} else if w.s.StopWhy() == "step-cap" {
		w.violate("HARNESS", "step-cap", "step cap reached in phase %d", w.ph)
	}
	w.simNanos = w.s.SimNanos()
	if vpool.DoublePuts > 0 {
		// an object that sits in a pool twice will be handed to two holders
		w.violate("C12", "pool-double-put", "%s (%d time(s) in this run)", vpool.DoublePutMsg, vpool.DoublePuts)
		if len(w.p.Faults) > 0 {
			w.violate("C18", "C12/pool-double-put", "with fault %s: %s", faultDesc(w.p.Faults), vpool.DoublePutMsg)
		}
	}
	w.finalOracles()
	w.lbOracle()
	w.udpFinal()
	for k, v := range w.k.Stats {
		w.probes[k] += v
	}
	for k, v := range w.k.FaultsFired {
		w.faults[k] += v
	}
	if w.prop == "C18" {
		for site, n := range w.k.SiteCalls() {
			w.probes["calls:"+site] = n
		}
	}
	stuck := w.s.Teardown()
	w.s.JoinAll()
	if vsched.RaceEnabled {
		w.raceReports()
	}
	if len(stuck) > 0 && w.viol["C06"] == nil && w.viol[w.prop] == nil {
		w.violate("HARNESS", "stuck-tasks", "tasks could not be unwound: %v", stuck)
	}
	w.probes["untracked-yields"] += w.s.Untracked
}

// raceReports (race flavour): what the race detector reported during this run.
// A report counts when both conflicting accesses were made by the code under
// test; anything else is the harness looking at its own state from code that
// is not marked as harness context, and is only counted.
func (w *World) raceReports() {
	for _, r := range racelog.New() {
		if !r.InGnet() {
			w.probes["race-reports-not-attributed-to-gnet"]++
			if runner.Trace {
				fmt.Println("  (race report outside gnet)", r.Describe())
			}
			continue
		}
		w.probes["race-reports"]++
		// (not through violate: which pairs the detector still reports depends on what
		// the process reported before, so they stay out of the event-log hash)
		v := runner.Violation{Key: "C05/data-race/" + r.Key(), Msg: "the race detector, shown only the synchronisation of the framework itself, reports unordered conflicting accesses: " + r.Describe()}
		dup := false
		for _, x := range w.races {
			dup = dup || x.Key == v.Key
		}
		if !dup {
			w.races = append(w.races, v)
		}
	}
	sort.Slice(w.races, func(i, j int) bool { return w.races[i].Key < w.races[j].Key })
}

func usesEngineRegister(p *Plan) bool {
	dialers := 0
	for _, u := range p.Users {
		dials := false
		for _, op := range u.Ops {
			switch op.K {
			case "register", "enroll", "enroll-other", "register-none":
				return true
			case "cdial", "cenroll":
				dials = true // Client.Dial/Enroll pick the loop through the same balancer
			}
		}
		if dials {
			dialers++
		}
	}
	return dialers > 1
}

// sibling is the handler of the older engine of a plan with cfg.sibling: it
// never serves a connection (peers connect once it is gone).
type sibling struct{ w *World }

func (h *sibling) OnBoot(eng gnet.Engine) gnet.Action {
	defer vsched.Restore(vsched.EnterHarness())
	h.w.sibEng, h.w.sibBooted = eng, true
	h.w.logf("sibling OnBoot")
	return gnet.None
}
func (h *sibling) OnShutdown(gnet.Engine) {}
func (h *sibling) OnOpen(c gnet.Conn) ([]byte, gnet.Action) {
	defer vsched.Restore(vsched.EnterHarness())
	h.w.violate("HARNESS", "sibling-served", "the older engine accepted a connection")
	return nil, gnet.Close
}
func (h *sibling) OnClose(gnet.Conn, error) gnet.Action { return gnet.None }
func (h *sibling) OnTraffic(gnet.Conn) gnet.Action      { return gnet.None }
func (h *sibling) OnTick() (time.Duration, gnet.Action) { return time.Hour, gnet.None }
