// Package vsim is the whole-engine simulation: the instrumented gnet of the
// current working tree runs on the simulated kernel (vsys) under the seeded
// scheduler (vsched) inside a testing/synctest bubble. A run is a pure
// function of its Plan.
package vsim

import (
	"encoding/json"

	"verif/sim/vsys"
)

// Config of the engine and of the simulated environment.
type Config struct {
	Network   string   `json:"net"`  // tcp | tcp6 | unix | udp
	Host      string   `json:"host"` // listen host, e.g. 127.0.0.1, [::1], [fe80::1%eth0]
	ET        bool     `json:"et,omitempty"`
	Chunk     int      `json:"chunk,omitempty"` // edge-triggered chunk (0: default)
	Loops     int      `json:"loops"`
	ReusePort bool     `json:"reuseport,omitempty"`
	LB        int      `json:"lb,omitempty"` // 0 RR, 1 LC, 2 hash
	ReadBuf   int      `json:"rbuf,omitempty"`
	WriteBuf  int      `json:"wbuf,omitempty"`
	SndBuf    int      `json:"sndbuf,omitempty"` // kernel send buffer of accepted sockets
	RcvBuf    int      `json:"rcvbuf,omitempty"` // how much a peer may have in flight
	Ticker    bool     `json:"ticker,omitempty"`
	KeepAlive int      `json:"keepalive,omitempty"` // seconds: WithTCPKeepAlive (setsockopt calls on the listener)
	TickMs    int      `json:"tick_ms,omitempty"`
	TickAt    []int    `json:"tick_at,omitempty"` // scheduler steps from which the simulated clock may run on by one tick interval (an external event, placed by the scheduler)
	Strategy  string   `json:"strategy"`
	Quantum   int      `json:"quantum"`
	PCTDepth  int      `json:"pct,omitempty"`
	OffSites  []string `json:"off,omitempty"`
	FdBase    int      `json:"fdbase,omitempty"`
	CanaryPct int      `json:"canary,omitempty"`
	OutHalf   bool     `json:"outhalf,omitempty"`
	ShortLT   int      `json:"shortlt,omitempty"` // percent of short reads in LT mode
	EfdHigh   bool     `json:"efdhigh,omitempty"` // eventfd counter starts near overflow
	Listeners int      `json:"listeners,omitempty"`
	MaxSteps  int      `json:"maxsteps,omitempty"`
	Client    bool     `json:"client,omitempty"`  // drive a gnet.Client (NewClient/Start/Dial/Enroll/Stop) instead of a listening engine
	Sibling   bool     `json:"sibling,omitempty"` // an older engine runs under the same address (SO_REUSEPORT) and is stopped once this one has booted; the plan's own stop goes through the package-level Stop
	Serial    bool     `json:"serial,omitempty"`  // peers connect one at a time, only when nothing is in transit (exact least-connections oracle)
}

// PeerOp is one step of a harness-driven remote peer.
type PeerOp struct {
	K    string `json:"k"` // send | recv | drain | shutw | close | abort | pause | squeeze | unsqueeze
	N    int    `json:"n,omitempty"`
	Segs []int  `json:"segs,omitempty"`
}

// ROp is one call of a read method inside OnTraffic.
type ROp struct {
	M   string `json:"m"` // read | next | peek | discard | peekdiscard | writeto
	N   int    `json:"n"`
	Acc int    `json:"acc,omitempty"` // writeto: bytes the writer accepts (<=0: all)
}

// WOp is one write operation inside a callback.
type WOp struct {
	M    string `json:"m"` // write | writev | readfrom | asyncwrite | asyncwritev | flush
	N    int    `json:"n,omitempty"`
	Segs []int  `json:"segs,omitempty"`
}

// TStep is the script of one OnTraffic invocation.
type TStep struct {
	R         []ROp `json:"r,omitempty"`
	W         []WOp `json:"w,omitempty"`
	Act       int   `json:"act,omitempty"`        // 0 None, 1 Close, 2 Shutdown
	CloseSelf bool  `json:"close_self,omitempty"` // EventLoop.Close(c) before returning
	WakeSelf  bool  `json:"wake_self,omitempty"`  // c.Wake(cb) from inside the callback
}

// ConnPlan is one peer connection: what the peer does and how the handler
// treats the connection.
type ConnPlan struct {
	Peer       []PeerOp `json:"peer"`
	OpenReply  int      `json:"open_reply,omitempty"` // bytes returned from OnOpen (0: nil)
	OpenAct    int      `json:"open_act,omitempty"`
	OpenW      []WOp    `json:"open_w,omitempty"` // writes issued inside OnOpen
	Traffic    []TStep  `json:"traffic,omitempty"`
	CloseAct   int      `json:"close_act,omitempty"`   // action returned by OnClose
	CloseW     []WOp    `json:"close_w,omitempty"`     // writes issued inside OnClose (a parting message; delivery is best effort)
	Magic      int      `json:"magic,omitempty"`       // 1-based index into magicAddrs: a peer address whose CRC-32 is a boundary value
	DupKeep    bool     `json:"dup_keep,omitempty"`    // OnOpen: Conn.Dup(), the application keeps the duplicate open
	CloseAgain int      `json:"close_again,omitempty"` // inside OnClose: 1 EventLoop.Close(c), 2 c.Close() (must be no-ops)
	Start      int      `json:"start,omitempty"`       // decisions to wait before connecting
	AddrOf     int      `json:"addr_of,omitempty"`     // 1+index of an earlier peer whose source address this peer re-uses
	UDP        bool     `json:"udp,omitempty"`         // (client mode) a connected UDP socket
	Dial       bool     `json:"dial,omitempty"`        // the connection is created by Engine.Register / Enroll from a user task
}

// UserOp is one call made by an application goroutine outside the loops.
type UserOp struct {
	K    string `json:"k"` // asyncwrite | asyncwritev | wake | close | closecb | execute | count | stop | pause
	Conn int    `json:"conn,omitempty"`
	N    int    `json:"n,omitempty"`
	Segs []int  `json:"segs,omitempty"`
	Late bool   `json:"late,omitempty"` // issue only after the connection was closed
	To2  int    `json:"to2,omitempty"`  // broadcastv: 1 + index of the second connection that gets the same batch
}

type UserPlan struct {
	Ops []UserOp `json:"ops"`
}

// StopPlan says how and when the engine is asked to shut down.
type StopPlan struct {
	Source string `json:"source"`           // engine.Stop | gnet.Stop | tick | boot | none(=engine.Stop after drain)
	AtStep int    `json:"at_step"`          // scheduler decision at which the request is made (<=0: after the workload drained)
	Double bool   `json:"double,omitempty"` // a second Stop issued concurrently
}

type Plan struct {
	Seed   uint64       `json:"seed"`
	Cfg    Config       `json:"cfg"`
	Conns  []ConnPlan   `json:"conns"`
	Users  []UserPlan   `json:"users,omitempty"`
	Faults []vsys.Fault `json:"faults,omitempty"`
	Stop   StopPlan     `json:"stop"`
	Sched  []string     `json:"sched,omitempty"` // recorded scheduler decisions to follow first ("option|quantum")
	UDP    *UDPPlan     `json:"udp,omitempty"`
	Enum   bool         `json:"enum,omitempty"`   // C18: enumerate single faults over this scenario
	EnumK  int          `json:"enum_k,omitempty"` // per site, call indexes 1..EnumK
}

func clonePlan(p *Plan) *Plan {
	b, _ := json.Marshal(p)
	var q Plan
	_ = json.Unmarshal(b, &q)
	return &q
}
