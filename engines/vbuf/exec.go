package vbuf

import (
	"bytes"
	"errors"
	"fmt"
	"io"

	"github.com/panjf2000/gnet/v2/pkg/buffer/elastic"
	"github.com/panjf2000/gnet/v2/pkg/buffer/linkedlist"
	"github.com/panjf2000/gnet/v2/pkg/buffer/ring"
	bsPool "github.com/panjf2000/gnet/v2/pkg/pool/byteslice"
	rbPool "github.com/panjf2000/gnet/v2/pkg/pool/ringbuffer"

	"verif/sim/runner"
)

var errInjected = errors.New("injected stream failure")

func payloadByte(k int) byte { return byte(k*167 + (k>>8)*59 + 0x3d) }

type sreader struct {
	steps []RStep
	i     int
	src   func(n int) []byte
	got   []byte
	calls int
	final error // error the reader ended with (nil: EOF)
}

func (r *sreader) Read(p []byte) (int, error) {
	r.calls++
	if r.calls > 10000 {
		panic("scripted reader called more than 10000 times")
	}
	if len(p) == 0 {
		return 0, nil
	}
	if r.i >= len(r.steps) {
		return 0, io.EOF
	}
	st := r.steps[r.i]
	r.i++
	n := min(st.N, len(p))
	d := r.src(n)
	copy(p, d)
	r.got = append(r.got, d...)
	switch st.E {
	case "eof":
		r.i = len(r.steps)
		return n, io.EOF
	case "err":
		r.i = len(r.steps)
		r.final = errInjected
		return n, errInjected
	}
	return n, nil
}

type swriter struct {
	steps  []WStep
	i      int
	got    []byte
	failed bool
	after  int // calls after a reported failure
}

func (w *swriter) Write(p []byte) (int, error) {
	if w.failed {
		w.after++
	}
	if w.i >= len(w.steps) {
		w.got = append(w.got, p...)
		return len(p), nil
	}
	st := w.steps[w.i]
	w.i++
	n := min(st.N, len(p))
	w.got = append(w.got, p[:n]...)
	if st.Err || n < len(p) {
		w.failed = true
		return n, errInjected
	}
	return n, nil
}

// subject adapts the four buffer types to one operation surface. Missing
// operations are nil.
type subject struct {
	write      func(p []byte) (int, error)
	writeStr   func(s string) (int, error)
	writeByte  func(c byte) error
	writev     func(bs [][]byte) (int, error)
	read       func(p []byte) (int, error)
	readByte   func() (byte, error)
	peek       func(n int) ([][]byte, error) // segments
	discard    func(n int) (int, error)
	bytes      func() []byte
	readFrom   func(r io.Reader) (int64, error)
	writeTo    func(w io.Writer) (int64, error)
	reset      func(n int)
	done       func()
	buffered   func() int
	isEmpty    func() bool
	available  func() (int, bool)
	capacity   func() (int, bool)
	isFull     func() (bool, bool)
	segLen     func() (int, bool) // linked list: number of segments
	pushFront  func(p []byte)
	appendNode func(p []byte)
	pop        func() []byte
	peekWith   func(n int, bs ...[]byte) ([][]byte, error)
}

func two(h, t []byte) [][]byte { return [][]byte{h, t} }

func newSubject(p *Plan) *subject {
	s := &subject{}
	switch p.Target {
	case "ring":
		rb := ring.New(p.Init)
		s.write, s.writeStr, s.writeByte = rb.Write, rb.WriteString, rb.WriteByte
		s.read, s.readByte = rb.Read, rb.ReadByte
		s.peek = func(n int) ([][]byte, error) { h, t := rb.Peek(n); return two(h, t), nil }
		s.discard, s.bytes, s.readFrom, s.writeTo = rb.Discard, rb.Bytes, rb.ReadFrom, rb.WriteTo
		s.reset = func(int) { rb.Reset() }
		s.buffered, s.isEmpty = rb.Buffered, rb.IsEmpty
		s.available = func() (int, bool) { return rb.Available(), true }
		s.capacity = func() (int, bool) { return rb.Cap(), true }
		s.isFull = func() (bool, bool) { return rb.IsFull(), true }
	case "ering":
		rb := &elastic.RingBuffer{}
		s.write, s.writeStr, s.writeByte = rb.Write, rb.WriteString, rb.WriteByte
		s.read, s.readByte = rb.Read, rb.ReadByte
		s.peek = func(n int) ([][]byte, error) { h, t := rb.Peek(n); return two(h, t), nil }
		s.discard, s.bytes, s.readFrom, s.writeTo = rb.Discard, rb.Bytes, rb.ReadFrom, rb.WriteTo
		s.reset = func(int) { rb.Reset() }
		s.done = rb.Done
		s.buffered, s.isEmpty = rb.Buffered, rb.IsEmpty
		s.available = func() (int, bool) { return rb.Available(), true }
		s.capacity = func() (int, bool) { return rb.Cap(), true }
		s.isFull = func() (bool, bool) { return rb.IsFull(), true }
	case "ebuf":
		mb, err := elastic.New(max(1, p.Init))
		if err != nil {
			panic(err)
		}
		s.write, s.writev, s.read = mb.Write, mb.Writev, mb.Read
		s.peek = mb.Peek
		s.discard, s.readFrom, s.writeTo = mb.Discard, mb.ReadFrom, mb.WriteTo
		s.reset = mb.Reset
		s.done = mb.Release
		s.buffered, s.isEmpty = mb.Buffered, mb.IsEmpty
	case "llist":
		lb := &linkedlist.Buffer{}
		s.write = func(p []byte) (int, error) { lb.PushBack(p); return len(p), nil }
		s.pushFront, s.appendNode, s.pop = lb.PushFront, lb.Append, lb.Pop
		s.read = lb.Read
		s.peek, s.peekWith = lb.Peek, lb.PeekWithBytes
		s.discard, s.readFrom, s.writeTo = lb.Discard, lb.ReadFrom, lb.WriteTo
		s.reset = func(int) { lb.Reset() }
		s.buffered, s.isEmpty = lb.Buffered, lb.IsEmpty
		s.segLen = func() (int, bool) { return lb.Len(), true }
	}
	return s
}

func poisonPool() {
	for rep := 0; rep < 2; rep++ {
		for k := 0; k <= 16; k++ {
			b := make([]byte, 1<<k)
			for i := range b {
				b[i] = 0xEE
			}
			bsPool.Put(b)
		}
	}
}

func concat(segs [][]byte) []byte {
	var out []byte
	for _, s := range segs {
		out = append(out, s...)
	}
	return out
}

func firstDiff(a, b []byte) int {
	n := min(len(a), len(b))
	for i := 0; i < n; i++ {
		if a[i] != b[i] {
			return i
		}
	}
	if len(a) != len(b) {
		return n
	}
	return -1
}

func errClass(err error) string {
	if err == nil {
		return "nil"
	}
	return "err"
}

type state struct {
	p      *Plan
	prop   string
	s      *subject
	model  []byte
	segs   []int // llist: model of segment lengths
	next   int   // next payload offset
	h      runner.Hasher
	probes map[string]int
	faults map[string]int
	viol   *runner.Violation
}

func (st *state) gen(n int) []byte {
	b := make([]byte, n)
	for i := range b {
		b[i] = payloadByte(st.next + i)
	}
	st.next += n
	return b
}

func (st *state) fail(op, kind, format string, a ...any) {
	if st.viol == nil {
		st.viol = &runner.Violation{
			Key: fmt.Sprintf("%s/%s/%s/%s", st.prop, st.p.Target, op, kind),
			Msg: fmt.Sprintf(format, a...),
		}
	}
}

// model helpers for linked-list segment accounting
func (st *state) segConsume(n int) {
	for n > 0 && len(st.segs) > 0 {
		if st.segs[0] > n {
			st.segs[0] -= n
			return
		}
		n -= st.segs[0]
		st.segs = st.segs[1:]
	}
}

func (st *state) checkContent(op string, got, want []byte, what string) bool {
	if d := firstDiff(got, want); d >= 0 {
		st.fail(op, "content", "%s: %d bytes, want %d; first difference at offset %d", what, len(got), len(want), d)
		return false
	}
	return true
}

func (st *state) invariants(op string) {
	if st.viol != nil {
		return
	}
	s := st.s
	b := s.buffered()
	if b != len(st.model) {
		st.fail(op, "Buffered", "after %s: Buffered()=%d, model holds %d bytes", op, b, len(st.model))
		return
	}
	if e := s.isEmpty(); e != (b == 0) {
		st.fail(op, "IsEmpty", "after %s: IsEmpty()=%v with Buffered()=%d", op, e, b)
		return
	}
	if s.available != nil {
		a, _ := s.available()
		c, _ := s.capacity()
		if a+b != c {
			st.fail(op, "Available", "after %s: Buffered %d + Available %d != Cap %d", op, b, a, c)
			return
		}
		if f, _ := s.isFull(); c > 0 && f != (b == c) {
			st.fail(op, "IsFull", "after %s: IsFull()=%v with Buffered %d Cap %d", op, f, b, c)
			return
		}
	}
	if s.segLen != nil {
		l, _ := s.segLen()
		if l != len(st.segs) {
			st.fail(op, "Len", "after %s: Len()=%d, model has %d segments", op, l, len(st.segs))
			return
		}
	}
	// Non-consuming full view must equal the model (Peek of everything).
	segs, err := s.peek(-1)
	if err != nil {
		st.fail(op, "peekall", "after %s: Peek(everything) failed: %v", op, err)
		return
	}
	if !st.checkContent(op, concat(segs), st.model, "content after "+op+" (Peek of everything)") {
		return
	}
	if s.buffered() != b {
		st.fail(op, "peek-consumes", "Peek changed Buffered from %d to %d", b, s.buffered())
	}
}

func Execute(p *Plan, prop string) (out runner.Outcome) {
	st := &state{p: p, prop: prop, probes: map[string]int{}, faults: map[string]int{}}
	if prop == "" {
		st.prop = map[string]string{"ring": "C09", "ering": "C10", "ebuf": "C10", "llist": "C11"}[p.Target]
	}
	if p.Poison {
		poisonPool()
	}
	if p.Target == "ering" || p.Target == "ebuf" {
		resetRingPool()
		for _, c := range p.Pool {
			rbPool.Put(ring.New(c))
		}
	}
	st.s = newSubject(p)
	st.h.Add(fmt.Sprintf("target=%s init=%d", p.Target, p.Init))
	for i := range p.Ops {
		st.step(i, &p.Ops[i])
		if st.viol != nil {
			break
		}
	}
	out.Violation = st.viol
	out.Probes, out.Faults = st.probes, st.faults
	out.Steps = len(p.Ops)
	out.LogHash = st.h.Sum()
	if runner.Trace {
		for _, l := range st.h.Log {
			fmt.Println("  |", l)
		}
	}
	out.Signature = st.h.U64()
	// non-trivial: at least three operations of which one wrote and one read,
	// and something unusual happened (growth, wrap, switch-over, stream fault)
	out.NonTrivial = st.probes["wrote"] > 0 && st.probes["consumed"] > 0 &&
		(st.probes["grew"]+st.probes["wrapped"]+st.probes["list-in-use"]+st.probes["stream-fault"]+st.probes["partial-node"] > 0)
	return
}

func (st *state) step(i int, op *Op) {
	s := st.s
	defer func() {
		if r := recover(); r != nil {
			st.fail(op.K, "panic", "operation #%d %s(n=%d) panicked: %v", i, op.K, op.N, r)
		}
	}()
	capBefore := -1
	if s.capacity != nil {
		capBefore, _ = s.capacity()
	}
	logf := func(format string, a ...any) { st.h.Add(fmt.Sprintf("%d %s ", i, op.K) + fmt.Sprintf(format, a...)) }
	switch op.K {
	case "Write", "WriteString", "PushBack":
		if op.K == "WriteString" && s.writeStr == nil {
			return
		}
		d := st.gen(op.N)
		keep := append([]byte(nil), d...)
		var n int
		var err error
		if op.K == "WriteString" {
			n, err = s.writeStr(string(d))
		} else {
			n, err = s.write(d)
			// the caller may reuse its slice immediately: copy semantics
			for j := range d {
				d[j] = 0x77
			}
		}
		logf("n=%d %s", n, errClass(err))
		if n != op.N || err != nil {
			st.fail(op.K, "count", "%s of %d bytes returned (%d, %v)", op.K, op.N, n, err)
			return
		}
		st.model = append(st.model, keep...)
		if op.N > 0 {
			st.segs = append(st.segs, op.N)
			st.probes["wrote"]++
		}
	case "FillExact":
		// drive the ring to exactly full (Available()==0), the state in which
		// growth and cursor equality are ambiguous
		if s.available == nil {
			return
		}
		a, _ := s.available()
		if a == 0 {
			return
		}
		d := st.gen(a)
		n, err := s.write(append([]byte(nil), d...))
		logf("n=%d %s", n, errClass(err))
		if n != a || err != nil {
			st.fail(op.K, "count", "Write of %d bytes returned (%d, %v)", a, n, err)
			return
		}
		st.model = append(st.model, d...)
		st.probes["wrote"]++
		st.probes["filled-exactly"]++
	case "WriteByte":
		if s.writeByte == nil {
			return
		}
		d := st.gen(1)
		if a, _ := s.available(); a == 0 {
			st.probes["writebyte-on-full"]++
		}
		err := s.writeByte(d[0])
		logf("%s", errClass(err))
		if err != nil {
			st.fail(op.K, "count", "WriteByte returned %v", err)
			return
		}
		st.model = append(st.model, d[0])
		st.probes["wrote"]++
	case "PushFront":
		d := st.gen(op.N)
		keep := append([]byte(nil), d...)
		s.pushFront(d)
		for j := range d {
			d[j] = 0x77
		}
		logf("n=%d", op.N)
		st.model = append(keep, st.model...)
		if op.N > 0 {
			st.segs = append([]int{op.N}, st.segs...)
			st.probes["wrote"]++
		}
	case "Append":
		d := st.gen(op.N)
		keep := append([]byte(nil), d...)
		s.appendNode(d) // ownership passes to the buffer
		logf("n=%d", op.N)
		st.model = append(st.model, keep...)
		if op.N > 0 {
			st.segs = append(st.segs, op.N)
			st.probes["wrote"]++
		}
	case "Writev":
		var bs [][]byte
		var keep []byte
		for _, n := range op.Segs {
			d := st.gen(n)
			keep = append(keep, d...)
			bs = append(bs, d)
		}
		n, err := s.writev(bs)
		for _, b := range bs {
			for j := range b {
				b[j] = 0x77
			}
		}
		logf("n=%d %s", n, errClass(err))
		if n != len(keep) || err != nil {
			st.fail(op.K, "count", "Writev of %d bytes in %d segments returned (%d, %v)", len(keep), len(bs), n, err)
			return
		}
		st.model = append(st.model, keep...)
		if len(keep) > 0 {
			st.probes["wrote"]++
		}
		if len(bs) > 1024 {
			st.probes["writev>1024"]++
		}
	case "Read":
		buf := make([]byte, op.N)
		n, err := s.read(buf)
		logf("n=%d", n)
		want := min(op.N, len(st.model))
		if n != want {
			st.fail(op.K, "count", "Read into %d bytes with %d buffered returned (%d, %v)", op.N, len(st.model), n, err)
			return
		}
		if !st.checkContent(op.K, buf[:n], st.model[:n], "bytes read") {
			return
		}
		st.model = st.model[n:]
		if n > 0 {
			st.probes["consumed"]++
			if len(st.segs) > 0 && st.segs[0] > n {
				st.probes["partial-node"]++
			}
		}
		st.segConsume(n)
	case "ReadByte":
		if s.readByte == nil {
			return
		}
		c, err := s.readByte()
		logf("%s", errClass(err))
		if len(st.model) == 0 {
			if err == nil {
				st.fail(op.K, "count", "ReadByte on an empty buffer returned byte %#x and no error", c)
			}
			return
		}
		if err != nil || c != st.model[0] {
			st.fail(op.K, "content", "ReadByte returned (%#x, %v), want %#x", c, err, st.model[0])
			return
		}
		st.model = st.model[1:]
		st.probes["consumed"]++
	case "Peek":
		n := op.N
		if n > len(st.model) && s.available == nil {
			// asking for more than is buffered: outcome unspecified for the
			// list-based buffers (they report ErrShortBuffer); must not panic
			_, _ = s.peek(n)
			logf("n=%d short", n)
			return
		}
		segs, err := s.peek(n)
		got := concat(segs)
		logf("n=%d got=%d %s", n, len(got), errClass(err))
		want := st.model
		if n > 0 && n < len(want) {
			want = want[:n]
		}
		if err != nil {
			st.fail(op.K, "error", "Peek(%d) with %d bytes buffered failed: %v", n, len(st.model), err)
			return
		}
		if !st.checkContent(op.K, got, want, fmt.Sprintf("Peek(%d) with %d buffered", n, len(st.model))) {
			return
		}
		if len(segs) > 1 && len(segs[0]) > 0 && len(segs[len(segs)-1]) > 0 {
			st.probes["peek-multi-segment"]++
		}
	case "PeekWithBytes":
		n := op.N
		if n > len(st.model) {
			n = len(st.model) // keep within the bound both readings of the API agree on
		}
		var extra [][]byte
		var flat []byte
		for _, l := range op.Segs {
			b := make([]byte, l)
			for j := range b {
				b[j] = byte(0xC0 + j)
			}
			extra = append(extra, b)
			flat = append(flat, b...)
		}
		segs, err := s.peekWith(n, extra...)
		got := concat(segs)
		logf("n=%d got=%d %s", n, len(got), errClass(err))
		want := append(flat, st.model...)
		if n > 0 && n < len(want) {
			want = want[:n]
		}
		if err != nil {
			st.fail(op.K, "error", "PeekWithBytes(%d) with %d bytes buffered failed: %v", n, len(st.model), err)
			return
		}
		if !st.checkContent(op.K, got, want, fmt.Sprintf("PeekWithBytes(%d, %d extra bytes)", n, len(flat))) {
			return
		}
	case "Discard":
		n, err := s.discard(op.N)
		logf("n=%d", n)
		want := min(op.N, len(st.model))
		if n != want {
			st.fail(op.K, "count", "Discard(%d) with %d buffered returned (%d, %v)", op.N, len(st.model), n, err)
			return
		}
		st.model = st.model[n:]
		if n > 0 {
			st.probes["consumed"]++
			if len(st.segs) > 0 && st.segs[0] > n {
				st.probes["partial-node"]++
			}
		}
		st.segConsume(n)
	case "Bytes":
		if s.bytes == nil {
			return
		}
		got := s.bytes()
		logf("n=%d", len(got))
		if !st.checkContent(op.K, got, st.model, "Bytes()") {
			return
		}
	case "Pop":
		got := s.pop()
		logf("n=%d", len(got))
		if len(st.segs) == 0 {
			if len(got) != 0 {
				st.fail(op.K, "content", "Pop on an empty list returned %d bytes", len(got))
			}
			return
		}
		want := st.model[:st.segs[0]]
		if !st.checkContent(op.K, got, want, "Pop()") {
			return
		}
		st.model = st.model[len(want):]
		st.segs = st.segs[1:]
		st.probes["consumed"]++
	case "WriteOwn":
		// write bytes the buffer itself handed out (the idiom of bytes.Buffer:
		// b.Write(b.Bytes())): the argument lies in the buffer's own storage, which a
		// growing Write replaces and gives back to its pool
		if len(st.model) == 0 {
			return
		}
		segs, err := s.peek(op.N)
		if err != nil || len(segs) == 0 {
			return
		}
		src := segs[0]
		if len(src) == 0 && len(segs) > 1 {
			src = segs[1]
		}
		if len(src) == 0 {
			return
		}
		keep := append([]byte(nil), src...)
		n, werr := s.write(src)
		logf("n=%d %s", n, errClass(werr))
		if n != len(keep) || werr != nil {
			st.fail(op.K, "count", "Write of %d peeked bytes returned (%d, %v)", len(keep), n, werr)
			return
		}
		st.model = append(st.model, keep...)
		st.probes["wrote-own-bytes"]++
	case "PopPushFront":
		// "un-pop": take the first segment, put its tail back in front, then reuse
		// the popped slice (PushFront must have copied)
		got := s.pop()
		logf("n=%d", len(got))
		if len(st.segs) == 0 {
			if len(got) != 0 {
				st.fail(op.K, "content", "Pop on an empty list returned %d bytes", len(got))
			}
			return
		}
		want := st.model[:st.segs[0]]
		if !st.checkContent(op.K, got, want, "Pop()") {
			return
		}
		st.model = st.model[len(want):]
		st.segs = st.segs[1:]
		k := 0
		if len(got) > 0 {
			k = op.N % (len(got) + 1)
		}
		rest := got[k:]
		keep := append([]byte(nil), rest...)
		s.pushFront(rest)
		for j := range got {
			got[j] = 0x66
		}
		st.model = append(keep, st.model...)
		if len(keep) > 0 {
			st.segs = append([]int{len(keep)}, st.segs...)
		}
		st.probes["pop-pushfront"]++
	case "ReadFrom":
		r := &sreader{steps: op.R, src: st.gen}
		n, err := s.readFrom(r)
		logf("n=%d %s calls=%d", n, errClass(err), r.calls)
		for _, x := range op.R {
			if x.E != "" || x.N == 0 {
				st.faults["reader:"+x.E+map[bool]string{true: "+0bytes", false: ""}[x.N == 0]]++
				st.probes["stream-fault"]++
			}
		}
		st.model = append(st.model, r.got...)
		if len(r.got) > 0 {
			st.probes["wrote"]++
		}
		if n != int64(len(r.got)) {
			st.fail(op.K, "count", "ReadFrom reported %d bytes, the reader returned %d", n, len(r.got))
			return
		}
		if (err != nil) != (r.final != nil) {
			st.fail(op.K, "error", "ReadFrom returned error %v, the reader ended with %v", err, r.final)
			return
		}
		if s.segLen != nil {
			// segmentation chosen by ReadFrom is not specified: take it from
			// the buffer's own non-consuming view, requiring only that every
			// segment is non-empty and the total matches
			segs, _ := s.peek(-1)
			st.segs = st.segs[:0]
			for _, sg := range segs {
				st.segs = append(st.segs, len(sg))
				if len(sg) == 0 {
					st.fail(op.K, "empty-segment", "ReadFrom left an empty segment in the list")
					return
				}
			}
		}
	case "WriteTo":
		w := &swriter{steps: op.W}
		n, err := s.writeTo(w)
		logf("n=%d %s", n, errClass(err))
		if w.failed {
			st.faults["writer:short-or-error"]++
			st.probes["stream-fault"]++
		}
		if n != int64(len(w.got)) {
			st.fail(op.K, "count", "WriteTo reported %d bytes, the writer accepted %d", n, len(w.got))
			return
		}
		if len(w.got) > len(st.model) || !bytes.Equal(w.got, st.model[:len(w.got)]) {
			st.checkContent(op.K, w.got, st.model[:min(len(w.got), len(st.model))], "bytes handed to the writer")
			if st.viol == nil {
				st.fail(op.K, "content", "writer received %d bytes, only %d were buffered", len(w.got), len(st.model))
			}
			return
		}
		st.model = st.model[len(w.got):]
		if len(w.got) > 0 {
			st.probes["consumed"]++
		}
		st.segConsume(len(w.got))
		if !w.failed && err == nil && len(st.model) != 0 {
			st.fail(op.K, "incomplete", "WriteTo to an all-accepting writer returned nil with %d bytes left", len(st.model))
			return
		}
		if !w.failed && err != nil && len(st.model) != 0 {
			st.fail(op.K, "error-with-data", "WriteTo to an all-accepting writer returned %v with %d bytes still buffered (%d handed over)", err, len(st.model), len(w.got))
			return
		}
	case "Reset":
		s.reset(op.N)
		logf("")
		st.model, st.segs = nil, nil
	case "Done", "Release":
		if s.done == nil {
			return
		}
		s.done()
		logf("")
		st.model, st.segs = nil, nil
	default:
		panic("unknown op " + op.K)
	}
	if st.viol != nil {
		return
	}
	if s.capacity != nil {
		if c, _ := s.capacity(); c > capBefore && capBefore >= 0 {
			st.probes["grew"]++
			if capBefore >= 4096 {
				st.probes["grew-above-4K"]++
			}
		}
	}
	if st.p.Target == "ebuf" && len(st.model) > st.p.Init {
		st.probes["list-in-use"]++
	}
	st.invariants(op.K)
	// wrapped: the non-consuming view comes back in two non-empty pieces
	if st.viol == nil && s.available != nil {
		if segs, _ := s.peek(-1); len(segs) == 2 && len(segs[0]) > 0 && len(segs[1]) > 0 {
			st.probes["wrapped"]++
		}
	}
}
