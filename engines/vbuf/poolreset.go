package vbuf

import (
	_ "unsafe" // go:linkname

	"github.com/panjf2000/gnet/v2/pkg/pool/ringbuffer"
)

// The ring-buffer pool keeps calibration counters and pooled rings of
// arbitrary capacity across uses; both change how an elastic buffer grows and
// wraps. A run must not depend on what earlier runs left there, so the pool is
// reset to its zero value before every run and then seeded from the plan.
//
//go:linkname rbBuiltinPool github.com/panjf2000/gnet/v2/pkg/pool/ringbuffer.builtinPool
var rbBuiltinPool ringbuffer.Pool

func resetRingPool() {
	// the zero value drops pooled rings and the calibration state
	rbBuiltinPool = ringbuffer.Pool{} //nolint:govet
}
