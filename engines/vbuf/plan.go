// Package vbuf is the simulation engine for the buffer properties C09–C11.
//
// The objects are single-threaded, but they read and write caller-supplied
// streams: the simulated parties are the io.Reader / io.Writer arguments (which
// return short, fail midway, signal EOF with or without data) and the allocator
// (a byte-slice pool pre-poisoned with dirty memory, so that any exposure of
// memory that was never written shows up as wrong content).
package vbuf

import (
	"encoding/json"

	"verif/sim/runner"
)

// RStep is one call of the scripted reader: return min(N, len(p)) bytes and E.
type RStep struct {
	N int    `json:"n"`
	E string `json:"e,omitempty"` // "", "eof", "err"
}

// WStep is one call of the scripted writer: accept min(N, len(p)) bytes;
// Err forces an error; a short accept always carries an error (io.Writer contract).
type WStep struct {
	N   int  `json:"n"`
	Err bool `json:"err,omitempty"`
}

type Op struct {
	K    string  `json:"k"`
	N    int     `json:"n,omitempty"`
	Segs []int   `json:"segs,omitempty"`
	R    []RStep `json:"r,omitempty"`
	W    []WStep `json:"w,omitempty"`
}

type Plan struct {
	Target string `json:"target"`         // ring | ering | ebuf | llist
	Init   int    `json:"init"`           // ring: New(size); ebuf: maxStaticBytes
	Faults bool   `json:"faults"`         // readers/writers may fail or be short
	Poison bool   `json:"poison"`         // pre-poison the byte-slice pool
	Pool   []int  `json:"pool,omitempty"` // capacities of rings pre-seeded into the ring-buffer pool
	Ops    []Op   `json:"ops"`
}

func sizePick(r *runner.Rand, around []int) int {
	switch r.Intn(10) {
	case 0:
		return 0
	case 1:
		return 1
	case 2, 3, 4:
		b := around[r.Intn(len(around))]
		return max(0, b+r.Range(-2, 2))
	case 5, 6:
		return r.Range(1, 64)
	case 7, 8:
		return r.Range(1, 1500)
	default:
		return r.Range(1, 9000)
	}
}

func genReader(r *runner.Rand, faults bool, around []int) []RStep {
	n := r.Range(1, 4)
	var steps []RStep
	for i := 0; i < n; i++ {
		st := RStep{N: sizePick(r, around)}
		if !faults && st.N == 0 {
			st.N = r.Range(1, 700)
		}
		if i == n-1 {
			// last scripted step decides how the stream ends
			if faults {
				switch r.Intn(4) {
				case 0:
					st.E = "eof" // data together with EOF (or (0,EOF) when N==0)
				case 1:
					st.E = "err"
				}
			}
		} else if faults && r.Chance(1, 12) {
			st.E = "err"
			steps = append(steps, st)
			return steps
		}
		steps = append(steps, st)
	}
	return steps
}

func genWriter(r *runner.Rand, faults bool, around []int) []WStep {
	if !faults {
		return nil // accepts everything
	}
	n := r.Range(1, 3)
	var steps []WStep
	for i := 0; i < n; i++ {
		st := WStep{N: sizePick(r, around)}
		switch r.Intn(4) {
		case 0:
			st.N = 1 << 30 // accept everything offered
		case 1:
			st.Err = true
		}
		steps = append(steps, st)
	}
	return steps
}

var opsFor = map[string][]string{
	"ring":  {"Write", "Write", "Write", "WriteString", "WriteByte", "Read", "Read", "ReadByte", "Peek", "Discard", "Bytes", "ReadFrom", "WriteTo", "Reset", "FillExact", "WriteOwn"},
	"ering": {"Write", "Write", "Write", "WriteString", "WriteByte", "Read", "Read", "ReadByte", "Peek", "Discard", "Bytes", "ReadFrom", "WriteTo", "Reset", "Done", "FillExact", "WriteOwn"},
	"ebuf":  {"Write", "Write", "Write", "Writev", "Writev", "Read", "Read", "Peek", "Peek", "Discard", "Discard", "ReadFrom", "WriteTo", "Reset", "Release"},
	"llist": {"PushBack", "PushBack", "PushBack", "PushFront", "Append", "Pop", "PopPushFront", "Read", "Read", "Peek", "PeekWithBytes", "Discard", "Discard", "ReadFrom", "WriteTo", "Reset"},
}

func targetsFor(prop string) []string {
	switch prop {
	case "C09":
		return []string{"ring"}
	case "C10":
		return []string{"ering", "ebuf", "ebuf"}
	case "C11":
		return []string{"llist"}
	}
	return []string{"ring", "ering", "ebuf", "llist"}
}

func Generate(seed uint64, prop, tier string) *Plan {
	r := runner.NewRand(seed)
	ts := targetsFor(prop)
	p := &Plan{Target: ts[r.Intn(len(ts))]}
	p.Faults = r.Chance(1, 2)
	p.Poison = r.Chance(3, 4)
	switch p.Target {
	case "ring":
		p.Init = r.Pick(0, 0, 1, 2, 3, 8, 64, 100, 512, 1024, 2048, 4096, 5000, 8192)
	case "ebuf":
		p.Init = r.Pick(1, 2, 7, 64, 512, 1000, 1024, 1025, 2048, 4096, 8192, 65536)
	}
	if (p.Target == "ebuf" || p.Target == "ering") && r.Chance(1, 2) {
		for k := r.Range(1, 2); k > 0; k-- {
			p.Pool = append(p.Pool, r.Pick(2, 64, 1024, 2048, 4096, 8192, 16384))
		}
	}
	around := []int{512, 1024, 2048, 4096, 8192}
	if p.Init > 0 {
		around = append(around, p.Init, p.Init)
	}
	nops := r.Range(1, 14)
	if r.Chance(1, 5) {
		nops = r.Range(1, 4)
	}
	if tier == "thorough" && r.Chance(1, 10) {
		nops = r.Range(10, 40)
	}
	kinds := opsFor[p.Target]
	for i := 0; i < nops; i++ {
		op := Op{K: kinds[r.Intn(len(kinds))]}
		switch op.K {
		case "Write", "WriteString", "PushBack", "PushFront", "Append":
			op.N = sizePick(r, around)
		case "PopPushFront":
			op.N = r.Intn(1 << 16)
		case "WriteOwn":
			op.N = sizePick(r, around)
			if r.Chance(1, 3) {
				op.N = -1 // everything buffered
			}
		case "Read", "Peek", "PeekWithBytes":
			op.N = sizePick(r, around)
			if op.K != "Read" && r.Chance(1, 6) {
				op.N = -r.Intn(2) // 0 or -1: everything
			}
			if op.K == "PeekWithBytes" {
				op.Segs = []int{r.Intn(40), r.Intn(3)}
			}
		case "Discard":
			op.N = max(1, sizePick(r, around))
		case "Writev":
			k := r.Range(0, 6)
			if r.Chance(1, 25) {
				k = r.Range(1020, 1030)
			}
			for j := 0; j < k; j++ {
				if k > 100 {
					op.Segs = append(op.Segs, r.Intn(4))
				} else {
					op.Segs = append(op.Segs, sizePick(r, around))
				}
			}
		case "ReadFrom":
			op.R = genReader(r, p.Faults, around)
		case "WriteTo":
			op.W = genWriter(r, p.Faults, around)
		case "Reset":
			if p.Target == "ebuf" {
				op.N = r.Pick(0, 0, -1, 1, 64, 1024, 4096)
			}
		}
		p.Ops = append(p.Ops, op)
	}
	return p
}

// Shrink: drop operations, shorten scripts, shrink sizes, simplify config.
func Shrink(p *Plan) []any {
	var out []any
	clone := func() *Plan {
		b, _ := json.Marshal(p)
		var q Plan
		_ = json.Unmarshal(b, &q)
		return &q
	}
	// drop halves, then single ops
	if n := len(p.Ops); n > 1 {
		q := clone()
		q.Ops = q.Ops[:n/2]
		out = append(out, q)
		q = clone()
		q.Ops = q.Ops[n/2:]
		out = append(out, q)
	}
	for i := range p.Ops {
		q := clone()
		q.Ops = append(q.Ops[:i], q.Ops[i+1:]...)
		out = append(out, q)
	}
	if p.Poison {
		q := clone()
		q.Poison = false
		out = append(out, q)
	}
	for i := range p.Pool {
		q := clone()
		q.Pool = append(q.Pool[:i], q.Pool[i+1:]...)
		out = append(out, q)
	}
	if p.Init > 0 {
		for _, v := range []int{0, 1, p.Init / 2} {
			if v != p.Init && !(p.Target == "ebuf" && v == 0) {
				q := clone()
				q.Init = v
				out = append(out, q)
			}
		}
	}
	shr := func(v int) []int {
		var c []int
		for _, x := range []int{0, 1, v / 2, v - 1} {
			if x >= 0 && x < v {
				c = append(c, x)
			}
		}
		return c
	}
	for i, op := range p.Ops {
		if op.N > 0 && op.N < 1<<29 {
			for _, v := range shr(op.N) {
				if op.K == "Discard" && v == 0 {
					continue
				}
				q := clone()
				q.Ops[i].N = v
				out = append(out, q)
			}
		}
		for j := range op.Segs {
			q := clone()
			q.Ops[i].Segs = append(q.Ops[i].Segs[:j], q.Ops[i].Segs[j+1:]...)
			if op.K != "PeekWithBytes" {
				out = append(out, q)
			}
			for _, v := range shr(op.Segs[j]) {
				q := clone()
				q.Ops[i].Segs[j] = v
				out = append(out, q)
			}
			if len(op.Segs) > 40 {
				break
			}
		}
		if len(op.Segs) > 40 {
			q := clone()
			q.Ops[i].Segs = q.Ops[i].Segs[:len(op.Segs)/2]
			out = append(out, q)
		}
		for j := range op.R {
			if len(op.R) > 1 {
				q := clone()
				q.Ops[i].R = append(q.Ops[i].R[:j], q.Ops[i].R[j+1:]...)
				out = append(out, q)
			}
			for _, v := range shr(op.R[j].N) {
				q := clone()
				q.Ops[i].R[j].N = v
				out = append(out, q)
			}
			if op.R[j].E != "" {
				q := clone()
				q.Ops[i].R[j].E = ""
				out = append(out, q)
			}
		}
		for j := range op.W {
			q := clone()
			q.Ops[i].W = append(q.Ops[i].W[:j], q.Ops[i].W[j+1:]...)
			out = append(out, q)
			if op.W[j].N < 1<<29 {
				for _, v := range shr(op.W[j].N) {
					q := clone()
					q.Ops[i].W[j].N = v
					out = append(out, q)
				}
			}
		}
	}
	return out
}
