package vbuf

import (
	"encoding/json"
	"runtime"
	"testing"

	"verif/sim/runner"
)

type eng struct{}

func (eng) Generate(seed uint64, prop, tier string) any  { return Generate(seed, prop, tier) }
func (eng) Execute(plan any, prop string) runner.Outcome { return Execute(plan.(*Plan), prop) }
func (eng) Shrink(plan any) []any                        { return Shrink(plan.(*Plan)) }
func (eng) Decode(raw json.RawMessage) (any, error) {
	var p Plan
	err := json.Unmarshal(raw, &p)
	return &p, err
}

func TestEngine(t *testing.T) {
	// one P: sync.Pool hands back what was put, in a fixed order
	runtime.GOMAXPROCS(1)
	if err := runner.Main("vbuf", eng{}); err != nil {
		t.Fatal(err)
	}
}
