package vpool

import (
	"testing"

	"verif/sim/runner"
)

func TestEngine(t *testing.T) {
	if err := runner.Main("vpool", eng{t}); err != nil {
		t.Fatal(err)
	}
}
