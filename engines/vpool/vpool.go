// Package vpool checks that pooled memory is exclusively owned (C12): 1..4
// tasks under the seeded scheduler interleave Get/Put on the byte-slice pool
// with slices of every shape (as obtained, re-sliced, odd capacity, foreign,
// zero-capacity) and Get/Put on the ring-buffer pool. A ledger of outstanding
// address ranges (kept alive, so the allocator cannot recycle them) is the
// oracle: exact length, sufficient capacity, no overlap with any outstanding
// range, never memory beyond the capacity of a slice that was put back.
package vpool

import (
	"encoding/json"
	"fmt"
	"testing"
	"testing/synctest"
	"unsafe"

	"github.com/panjf2000/gnet/v2/pkg/buffer/ring"
	bsPool "github.com/panjf2000/gnet/v2/pkg/pool/byteslice"
	rbPool "github.com/panjf2000/gnet/v2/pkg/pool/ringbuffer"

	"verif/sim/runner"
	simpool "verif/sim/vpool"
	"verif/sim/vsched"
)

type Op struct {
	K     string `json:"k"` // get | put | putforeign | rget | rput | rwrite
	N     int    `json:"n,omitempty"`
	Slot  int    `json:"slot,omitempty"`
	Shape int    `json:"shape,omitempty"` // put: 0 as obtained, 1 tail b[k:], 2 head b[:k], 3 b[:k:k], 4 b[k:k]
	K2    int    `json:"k2,omitempty"`
}

type Plan struct {
	Seed     uint64 `json:"seed"`
	Strategy string `json:"strategy"`
	Quantum  int    `json:"quantum"`
	Tasks    [][]Op `json:"tasks"`
}

func genSize(r *runner.Rand) int {
	switch r.Intn(12) {
	case 0:
		return 0
	case 1:
		return 1
	case 2:
		return r.Pick(2, 3, 4, 5, 7, 8, 9)
	case 3, 4:
		k := r.Range(1, 16)
		return (1 << k) + r.Range(-1, 1)
	case 5:
		return r.Range(1, 1<<20)
	case 6:
		return r.Pick(1<<20, 1<<22, (1<<22)+1)
	default:
		return r.Range(1, 5000)
	}
}

func Generate(seed uint64, prop, tier string) *Plan {
	r := runner.NewRand(seed)
	p := &Plan{Seed: r.U64(), Strategy: []string{"random", "pct", "starve"}[r.Intn(3)], Quantum: r.Pick(1, 2, 5)}
	nt := r.Range(1, 4)
	for t := 0; t < nt; t++ {
		var ops []Op
		n := r.Range(2, 14)
		for i := 0; i < n; i++ {
			switch x := r.Intn(13); {
			case x < 4:
				ops = append(ops, Op{K: "get", N: genSize(r)})
			case x < 8:
				ops = append(ops, Op{K: "put", Slot: r.Intn(8), Shape: r.Intn(5), K2: r.Range(0, 40)})
			case x == 8:
				ops = append(ops, Op{K: "putforeign", N: r.Pick(0, 1, 3, 5, 6, 7, 100, 1000, 1025, 4097)})
			case x == 9:
				ops = append(ops, Op{K: "rget"})
			case x == 10:
				ops = append(ops, Op{K: "rput", Slot: r.Intn(4)})
			case x == 11:
				ops = append(ops, Op{K: "rreset", Slot: r.Intn(4)})
			default:
				op := Op{K: "rwrite", Slot: r.Intn(4), N: r.Pick(1, 100, 2000, 70000)}
				if r.Chance(1, 50) {
					op.N = 9 << 20 // a ring that grew for a burst (beyond any "idle" threshold of a few MiB)
				}
				ops = append(ops, op)
			}
		}
		p.Tasks = append(p.Tasks, ops)
	}
	return p
}

func Shrink(p *Plan) []any {
	var out []any
	clone := func() *Plan {
		b, _ := json.Marshal(p)
		var q Plan
		_ = json.Unmarshal(b, &q)
		return &q
	}
	if len(p.Tasks) > 1 {
		for i := range p.Tasks {
			q := clone()
			q.Tasks = append(q.Tasks[:i], q.Tasks[i+1:]...)
			out = append(out, q)
		}
	}
	for i, t := range p.Tasks {
		for j := range t {
			q := clone()
			q.Tasks[i] = append(q.Tasks[i][:j], q.Tasks[i][j+1:]...)
			out = append(out, q)
		}
		for j, op := range t {
			if op.N > 1 {
				q := clone()
				q.Tasks[i][j].N = op.N / 2
				out = append(out, q)
			}
		}
	}
	return out
}

type held struct {
	b     []byte
	base  uintptr
	cap   int
	owner int
	seq   byte
}

type region struct {
	base uintptr
	cap  int
	keep []byte
}

func Execute(t *testing.T, p *Plan, prop string) (out runner.Outcome) {
	var h runner.Hasher
	probes := map[string]int{}
	var viol *runner.Violation
	fail := func(key, format string, a ...any) {
		if viol == nil {
			viol = &runner.Violation{Key: "C12/" + key, Msg: fmt.Sprintf(format, a...)}
		}
	}
	func() {
		defer func() {
			if r := recover(); r != nil {
				fail("harness", "bubble: %v", r)
			}
		}()
		synctest.Test(t, func(t *testing.T) {
			vsched.ResetGlobals()
			simpool.ResetDoublePuts()
			s := vsched.New(vsched.Config{Seed: p.Seed, Strategy: p.Strategy, Quantum: p.Quantum, MaxSteps: 50000})
			defer s.Close()
			s.OnQuiescent = func(int) int { return vsched.QStop }
			s.OnPanic = func(task string, v any, stack []byte) { fail("panic", "task %s panicked: %v", task, v) }
			var outstanding []*held
			var putBack []region // every slice ever put back, kept alive
			var keepAlive [][]byte
			var seq byte
			ringsHeld := map[*ring.Buffer]int{}
			checkGet := func(task int, size int, b []byte) *held {
				if size <= 0 {
					if len(b) != 0 {
						fail("get-zero", "Get(%d) returned a slice of length %d", size, len(b))
					}
					return nil
				}
				if len(b) != size || cap(b) < size {
					fail("get-shape", "Get(%d) returned len %d cap %d", size, len(b), cap(b))
					return nil
				}
				base := uintptr(unsafe.Pointer(unsafe.SliceData(b)))
				c := cap(b)
				for _, o := range outstanding {
					if base < o.base+uintptr(o.cap) && o.base < base+uintptr(c) {
						fail("aliasing", "Get(%d) for task %d returned memory [%#x,+%d) that overlaps the slice [%#x,+%d) still held by task %d", size, task, base, c, o.base, o.cap, o.owner)
						return nil
					}
				}
				for _, r := range putBack {
					if base >= r.base && base < r.base+uintptr(max(r.cap, 1)) && base+uintptr(c) > r.base+uintptr(r.cap) {
						fail("beyond-capacity", "Get(%d) returned len %d cap %d starting inside a slice of capacity %d that was put back: %d bytes beyond its end", size, len(b), c, r.cap, int(base+uintptr(c)-r.base-uintptr(r.cap)))
						return nil
					}
				}
				seq++
				full := b[:c]
				for i := range full {
					full[i] = seq
				}
				hd := &held{b: b, base: base, cap: c, owner: task, seq: seq}
				outstanding = append(outstanding, hd)
				keepAlive = append(keepAlive, full)
				return hd
			}
			verify := func(hd *held, when string) {
				full := hd.b[:hd.cap]
				for i := range full {
					if full[i] != hd.seq {
						fail("overwritten", "the slice held by task %d (cap %d) was overwritten at offset %d %s", hd.owner, hd.cap, i, when)
						return
					}
				}
			}
			for ti, ops := range p.Tasks {
				ti, ops := ti, ops
				s.Go(fmt.Sprintf("t%d", ti), func() {
					var mine []*held
					var rings []*ring.Buffer
					for _, op := range ops {
						vsched.Yield("op")
						if viol != nil {
							return
						}
						switch op.K {
						case "get":
							b := bsPool.Get(op.N)
							h.Add(fmt.Sprintf("t%d get %d -> len %d cap %d", ti, op.N, len(b), cap(b)))
							if hd := checkGet(ti, op.N, b); hd != nil {
								mine = append(mine, hd)
								probes["gets"]++
							}
						case "put":
							if len(mine) == 0 {
								continue
							}
							i := op.Slot % len(mine)
							hd := mine[i]
							mine = append(mine[:i], mine[i+1:]...)
							verify(hd, "before it was put back")
							for j, o := range outstanding {
								if o == hd {
									outstanding = append(outstanding[:j], outstanding[j+1:]...)
									break
								}
							}
							b := hd.b
							k := 0
							if len(b) > 0 {
								k = op.K2 % (len(b) + 1)
							}
							switch op.Shape {
							case 1:
								b = b[k:]
							case 2:
								b = b[:k]
							case 3:
								b = b[:k:k]
							case 4:
								b = b[k:k]
							}
							if op.Shape != 0 {
								probes["put-resliced"]++
							}
							if cap(b) > 0 {
								putBack = append(putBack, region{base: uintptr(unsafe.Pointer(unsafe.SliceData(b))), cap: cap(b), keep: b[:0:cap(b)]})
							}
							h.Add(fmt.Sprintf("t%d put shape %d len %d cap %d", ti, op.Shape, len(b), cap(b)))
							bsPool.Put(b)
							probes["puts"]++
						case "putforeign":
							b := make([]byte, op.N)
							if cap(b) > 0 {
								putBack = append(putBack, region{base: uintptr(unsafe.Pointer(unsafe.SliceData(b))), cap: cap(b), keep: b})
							}
							bsPool.Put(b)
							h.Add(fmt.Sprintf("t%d putforeign %d", ti, op.N))
							probes["put-foreign"]++
						case "rget":
							rb := rbPool.Get()
							if rb == nil {
								fail("ring-nil", "ring-buffer pool returned nil")
								return
							}
							if !rb.IsEmpty() || rb.Buffered() != 0 {
								fail("ring-not-empty", "ring buffer obtained from the pool holds %d bytes", rb.Buffered())
							}
							if o, dup := ringsHeld[rb]; dup {
								fail("ring-shared", "the ring buffer handed to task %d is still held by task %d", ti, o)
							}
							ringsHeld[rb] = ti
							rings = append(rings, rb)
							h.Add(fmt.Sprintf("t%d rget cap %d", ti, rb.Cap()))
							probes["ring-gets"]++
						case "rwrite":
							if len(rings) == 0 {
								continue
							}
							rb := rings[op.Slot%len(rings)]
							_, _ = rb.Write(make([]byte, op.N))
						case "rreset":
							if len(rings) == 0 {
								continue
							}
							rings[op.Slot%len(rings)].Reset()
							probes["ring-resets"]++
						case "rput":
							if len(rings) == 0 {
								continue
							}
							i := op.Slot % len(rings)
							rb := rings[i]
							rings = append(rings[:i], rings[i+1:]...)
							delete(ringsHeld, rb)
							rbPool.Put(rb)
							h.Add(fmt.Sprintf("t%d rput", ti))
						}
					}
					for _, hd := range mine {
						verify(hd, "while it was held")
					}
				})
			}
			s.Loop()
			for _, hd := range outstanding {
				verify(hd, "by the end of the run")
			}
			if simpool.DoublePuts > 0 {
				// a block that sits in its pool twice will be handed to two holders
				fail("pool-double-put", "%s (%d time(s))", simpool.DoublePutMsg, simpool.DoublePuts)
			}
			out.Steps, out.Signature = s.Step(), s.Signature()
			out.NonTrivial = probes["gets"] > 1 && probes["puts"] > 0
			_ = keepAlive
			s.Teardown()
		})
	}()
	out.Violation = viol
	out.Probes = probes
	out.LogHash = h.Sum()
	return
}

type eng struct{ t *testing.T }

func (e eng) Generate(seed uint64, prop, tier string) any { return Generate(seed, prop, tier) }
func (e eng) Execute(plan any, prop string) runner.Outcome {
	return Execute(e.t, plan.(*Plan), prop)
}
func (e eng) Shrink(plan any) []any { return Shrink(plan.(*Plan)) }
func (e eng) Decode(raw json.RawMessage) (any, error) {
	var p Plan
	err := json.Unmarshal(raw, &p)
	return &p, err
}
