package vreg

import (
	"testing"

	"verif/sim/runner"
)

func TestEngine(t *testing.T) {
	if err := runner.Main("vreg", eng{t}); err != nil {
		t.Fatal(err)
	}
}
