// Package vreg drives the connection registry (the map-based one of the
// default build, the compacting matrix of the gc_opt build) through seeded
// histories against a plain map (C14). The registry has no I/O, clock or
// concurrency of its own: this is model-based history generation, the
// adversarial histories of the running engine come from the vsim monitor.
package vreg

import (
	"encoding/json"
	"fmt"
	"sort"
	"testing"

	_ "github.com/panjf2000/gnet/v2" // registers the export hook

	"verif/sim/runner"
	"verif/sim/vsched"
)

type reg interface {
	Add(fd int) any
	Del(c any)
	Get(fd int) any
	Count() int
	Iterate(f func(c any, fd int) bool)
}

type Op struct {
	K string `json:"k"` // add | del | get | count | iter | drain | readd
	N int    `json:"n,omitempty"`
}

type Plan struct {
	Ops []Op `json:"ops"`
}

func Generate(seed uint64, prop, tier string) *Plan {
	r := runner.NewRand(seed)
	p := &Plan{}
	n := r.Range(1, 40)
	big := r.Chance(1, 40) || tier == "thorough" && r.Chance(1, 15)
	if big {
		// populate up to and past one row of the matrix (65536 entries), so that
		// removals and registrations happen on both sides of the row boundary
		p.Ops = append(p.Ops, Op{K: "bulk", N: 65536 + r.Pick(-2, -1, 0, 1, 2, 3, 300)})
		n = r.Range(3, 16)
	}
	for i := 0; i < n; i++ {
		switch x := r.Intn(20); {
		case x < 8:
			p.Ops = append(p.Ops, Op{K: "add", N: r.Pick(3, 4, 5, 9, 100, 70000, r.Range(3, 60))})
		case x < 13:
			p.Ops = append(p.Ops, Op{K: "del", N: r.Intn(1 << 20)})
		case x < 15:
			p.Ops = append(p.Ops, Op{K: "get", N: r.Range(0, 70)})
		case x == 15:
			p.Ops = append(p.Ops, Op{K: "count"})
		case x == 16:
			p.Ops = append(p.Ops, Op{K: "iter"})
		case x == 17:
			p.Ops = append(p.Ops, Op{K: "drain"})
		case x == 18:
			p.Ops = append(p.Ops, Op{K: "readd", N: r.Intn(1 << 20)})
		default:
			// removing only some of the visited connections during an iteration
			// is not a pattern the statement covers (only the full shutdown drain)
			p.Ops = append(p.Ops, Op{K: "iter"})
		}
	}
	return p
}

func Shrink(p *Plan) []any {
	var out []any
	for i := range p.Ops {
		q := &Plan{Ops: append(append([]Op{}, p.Ops[:i]...), p.Ops[i+1:]...)}
		out = append(out, q)
	}
	if len(p.Ops) > 3 {
		out = append([]any{&Plan{Ops: p.Ops[:len(p.Ops)/2]}, &Plan{Ops: p.Ops[len(p.Ops)/2:]}}, out...)
	}
	for i, op := range p.Ops {
		if op.K == "bulk" && op.N > 4 {
			q := &Plan{Ops: append([]Op{}, p.Ops...)}
			q.Ops[i].N = op.N / 2
			out = append(out, q)
		}
	}
	return out
}

func Execute(t *testing.T, p *Plan, prop string) (out runner.Outcome) {
	var h runner.Hasher
	probes := map[string]int{}
	var viol *runner.Violation
	fail := func(key, format string, a ...any) {
		if viol == nil {
			viol = &runner.Violation{Key: "C14/registry/" + key, Msg: fmt.Sprintf(format, a...)}
		}
	}
	defer func() {
		if r := recover(); r != nil {
			fail("panic", "registry operation panicked: %v", r)
		}
		out.Violation = viol
		out.Probes = probes
		out.LogHash = h.Sum()
		out.Signature = h.U64()
		out.Steps = len(p.Ops)
		out.NonTrivial = probes["removed"] > 0 && probes["added"] > 2
	}()
	hook := vsched.Hook("newreg")
	if hook == nil {
		out.Inconcl = true
		out.Note = "export file not available for this tree"
		return
	}
	rg, ok := hook(nil).(reg)
	if !ok {
		out.Inconcl = true
		return
	}
	model := map[int]any{}
	var order []int // live fds in insertion order
	nextFree := 3
	live := func() []int {
		fds := make([]int, 0, len(model))
		for fd := range model {
			fds = append(fds, fd)
		}
		sort.Ints(fds)
		return fds
	}
	remove := func(fd int) {
		rg.Del(model[fd])
		delete(model, fd)
		for i, x := range order {
			if x == fd {
				order = append(order[:i], order[i+1:]...)
				break
			}
		}
		probes["removed"]++
	}
	check := func(where string, full bool) {
		if viol != nil {
			return
		}
		if n := rg.Count(); n != len(model) {
			fail("count", "after %s: count is %d, %d connections are live", where, n, len(model))
			return
		}
		if !full {
			// large population: spot checks of the oldest, newest and a few other live entries
			for i, fd := range order {
				if i < 3 || i >= len(order)-3 || i%9973 == 0 {
					if rg.Get(fd) != model[fd] {
						fail("lookup", "after %s: lookup of live descriptor %d (registration #%d of %d) does not return the connection registered under it", where, fd, i, len(order))
						return
					}
				}
			}
			return
		}
		seen := map[int]int{}
		rg.Iterate(func(c any, fd int) bool {
			seen[fd]++
			if model[fd] != c {
				fail("iterate-stale", "after %s: iteration visited descriptor %d with an object that is not the one registered", where, fd)
			}
			return true
		})
		for fd, n := range seen {
			if n != 1 {
				fail("iterate-twice", "after %s: iteration visited descriptor %d %d times", where, fd, n)
			}
		}
		for fd := range model {
			if seen[fd] == 0 {
				fail("iterate-missing", "after %s: iteration did not visit live descriptor %d", where, fd)
				return
			}
			if rg.Get(fd) != model[fd] {
				fail("lookup", "after %s: lookup of live descriptor %d does not return the connection registered under it", where, fd)
				return
			}
		}
	}
	lastRemoved := -1
	for i, op := range p.Ops {
		if viol != nil {
			break
		}
		where := fmt.Sprintf("op #%d %s(%d)", i, op.K, op.N)
		full := len(model) < 3000
		switch op.K {
		case "bulk":
			for j := 0; j < op.N; j++ {
				fd := 100000 + j
				model[fd] = rg.Add(fd)
				order = append(order, fd)
			}
			probes["added"] += op.N
			probes["bulk-populations"]++
			full = false
		case "add":
			fd := op.N
			for model[fd] != nil || fd < 3 {
				fd = nextFree
				nextFree++
			}
			model[fd] = rg.Add(fd)
			order = append(order, fd)
			probes["added"]++
		case "readd":
			if lastRemoved < 0 || model[lastRemoved] != nil {
				continue
			}
			model[lastRemoved] = rg.Add(lastRemoved)
			order = append(order, lastRemoved)
			probes["re-registered-just-closed"]++
		case "del":
			if len(order) == 0 {
				continue
			}
			var fd int
			switch op.N % 4 {
			case 0:
				fd = order[0] // first registered
			case 1:
				fd = order[len(order)-1] // last registered
			default:
				fd = order[(op.N/4)%len(order)]
			}
			remove(fd)
			lastRemoved = fd
		case "get":
			got := rg.Get(op.N)
			if got != model[op.N] && !(got == nil && model[op.N] == nil) {
				fail("lookup", "lookup of descriptor %d returned %v, registered: %v", op.N, got != nil, model[op.N] != nil)
			}
		case "count", "iter":
		case "drain", "iterdel":
			// the shutdown pattern: remove each connection as it is visited
			k := 0
			visited := map[int]bool{}
			rg.Iterate(func(c any, fd int) bool {
				if model[fd] != c {
					fail("iterate-stale", "%s: iteration visited descriptor %d which is not live", where, fd)
					return false
				}
				if visited[fd] {
					fail("iterate-twice", "%s: iteration visited descriptor %d twice", where, fd)
					return false
				}
				visited[fd] = true
				k++
				if op.K == "drain" || k%op.N == 0 {
					remove(fd)
				}
				return true
			})
			if op.K == "drain" && len(model) != 0 {
				fail("drain-incomplete", "%s: iterate-and-remove left %d live connections unvisited: %v", where, len(model), live())
			}
			probes["iterate-remove"]++
		}
		h.Add(fmt.Sprintf("%s live=%d", where, len(model)))
		check(where, full)
	}
	return
}

type eng struct{ t *testing.T }

func (e eng) Generate(seed uint64, prop, tier string) any { return Generate(seed, prop, tier) }
func (e eng) Execute(plan any, prop string) runner.Outcome {
	return Execute(e.t, plan.(*Plan), prop)
}
func (e eng) Shrink(plan any) []any { return Shrink(plan.(*Plan)) }
func (e eng) Decode(raw json.RawMessage) (any, error) {
	var p Plan
	err := json.Unmarshal(raw, &p)
	return &p, err
}
