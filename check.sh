#!/bin/sh
# Entry point used by MANIFEST.json: (re)build the driver if needed, then run it.
# usage: ./check.sh <ID> [--tier quick|thorough] [--replay file] ...
cd "$(dirname "$0")" || exit 2
export GOFLAGS=-mod=mod GOPROXY=off GOSUMDB=off GOTOOLCHAIN=local CGO_ENABLED=0
GO=/opt/veriftools/go1.26.8/bin/go
[ -x "$GO" ] || GO=go1.26.8
if [ ! -x bin/check ] || [ -n "$(find cmd sim -newer bin/check -name '*.go' 2>/dev/null | head -1)" ]; then
  mkdir -p bin
  "$GO" build -o bin/check ./cmd/check || { echo "HARNESS-ERROR: cannot build the driver" >&2; exit 2; }
fi
exec bin/check "$@"
