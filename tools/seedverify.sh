#!/bin/sh
# usage: tools/seedverify.sh <patch.diff> <demo_file> <dest_dir_rel> <go test args...>
# Confirms a seeded change: demo passes on the clean tree, fails with the patch. Scratch worktree removed afterwards.
P=$(realpath "$1"); D=$(realpath "$2"); REL=$3; shift 3
export GOFLAGS=-mod=mod GOPROXY=off GOSUMDB=off
WT=$(mktemp -d /tmp/wt-seed-XXXXXX)
git -C /repo worktree add -q --detach "$WT" HEAD || exit 2
cp "$D" "$WT/$REL/zz_seed_$(basename "$D")"
echo "== clean tree"; (cd "$WT/$REL" && go test -count=1 "$@" 2>&1 | tail -5); 
git -C "$WT" apply "$P" || { echo "patch does not apply"; git -C /repo worktree remove --force "$WT"; exit 2; }
echo "== with patch"; (cd "$WT/$REL" && go test -count=1 "$@" 2>&1 | tail -8)
git -C /repo worktree remove --force "$WT"
