#!/bin/sh
# usage: [SEEDNS=1] tools/seedverify.sh <patch.diff> <demo_file> <dest_dir_rel> <go test args...>
# Confirms a seeded change: demo passes on the clean tree, fails with the patch. Scratch worktree removed
# afterwards. SEEDNS=1 runs the demo in a private network namespace with lo and a veth pair.
P=$(realpath "$1"); D=$(realpath "$2"); REL=$3; shift 3
export GOFLAGS=-mod=mod GOPROXY=off GOSUMDB=off
WT=$(mktemp -d /tmp/wt-seed-XXXXXX)
git -C /repo worktree add -q --detach "$WT" HEAD || exit 2
cp "$D" "$WT/$REL/zz_seed_$(basename "$D")"
run() {
  if [ -n "$SEEDNS" ]; then
    (cd "$WT/$REL" && unshare -n -- sh -c 'ip link set lo up; ip link add eth0 type veth peer name vpeer; ip addr add 10.77.0.1/24 brd + dev eth0; ip addr add 10.77.0.2/24 brd + dev vpeer; ip link set eth0 up; ip link set vpeer up; ip route add default via 10.77.0.2 dev eth0; sleep 3; go test -count=1 "$@" 2>&1' sh "$@" | tail -8)
  else
    (cd "$WT/$REL" && go test -count=1 "$@" 2>&1 | tail -8)
  fi
}
echo "== clean tree"; run "$@"
git -C "$WT" apply "$P" || { echo "patch does not apply"; git -C /repo worktree remove --force "$WT"; exit 2; }
echo "== with patch"; run "$@"
git -C /repo worktree remove --force "$WT"
