#!/bin/sh
# usage: tools/mutcheck.sh <patch.diff> <ID> [budget_s] [extra check args]
# Applies a patch to a scratch worktree of /repo, runs one check against it, removes the worktree.
P=$(realpath "$1"); ID=$2; B=${3:-20}; shift; shift; shift 2>/dev/null
WT=$(mktemp -d /tmp/wt-mut-XXXXXX)
git -C /repo worktree add -q --detach "$WT" HEAD || exit 2
if ! git -C "$WT" apply "$P"; then echo "patch does not apply"; git -C /repo worktree remove --force "$WT"; exit 2; fi
cd /verif && VERIF_REPO="$WT" ./bin/check "$ID" --budget "$B" "$@"
RC=$?
git -C /repo worktree remove --force "$WT"
exit $RC
