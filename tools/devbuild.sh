#!/bin/sh
# Developer helper: instrument /repo (or $VERIF_REPO) into /tmp/ins-<variant> and build one engine test binary
# usage: tools/devbuild.sh <engine> [variant]   -> bin/<engine>.test
cd "$(dirname "$0")/.." || exit 2
export GOFLAGS=-mod=mod GOPROXY=off GOSUMDB=off GOTOOLCHAIN=local CGO_ENABLED=0
E=$1; V=${2:-default}
go1.26.8 build -o bin/vinstr ./cmd/vinstr || exit 2
D=/tmp/ins-$V; rm -rf "$D"; mkdir -p "$D"
TAGS=$(echo "$V" | tr '+' '\n' | grep -v -e '^default$' -e '^small$' | tr '\n' ',' | sed 's/,$//')
SMALL=""; echo "$V" | grep -q small && SMALL=small
./bin/vinstr "${VERIF_REPO:-/repo}" "$D" "${TAGS:--}" $SMALL >/dev/null || exit 2
for f in $(cd inject && find . -name "*.go.txt"); do cp "inject/$f" "$D/${f%.txt}"; done
sed "s#=> /repo#=> $D#" go.mod > "$D.mod"; cp go.sum "$D.sum"
go1.26.8 test -c -modfile="$D.mod" -tags "verif $(echo $TAGS | tr ',' ' ')" -o "bin/$E.test" "./engines/$E"
