#!/bin/sh
# Developer helper: instrument /repo (or $VERIF_REPO) into /tmp/ins-<variant> and build one engine test binary
# usage: tools/devbuild.sh <engine> [variant]   -> bin/<engine>.test
# variant tokens joined by '+': default | poll_opt | gc_opt | small (knob flavour) | race (race-detector flavour)
cd "$(dirname "$0")/.." || exit 2
export GOFLAGS=-mod=mod GOPROXY=off GOSUMDB=off GOTOOLCHAIN=local CGO_ENABLED=0
E=$1; V=${2:-default}
go1.26.8 build -o bin/vinstr ./cmd/vinstr || exit 2
D=/tmp/ins-$V; rm -rf "$D"; mkdir -p "$D"
TAGS=$(echo "$V" | tr '+' '\n' | grep -v -e '^default$' -e '^small$' -e '^race$' | tr '\n' ',' | sed 's/,$//')
SMALL="-"; echo "$V" | grep -q small && SMALL=small
echo "$V" | grep -q race && SMALL="$SMALL,race"
./bin/vinstr "${VERIF_REPO:-/repo}" "$D" "${TAGS:--}" $SMALL >/dev/null || exit 2
for f in $(cd inject && find . -name "*.go.txt"); do cp "inject/$f" "$D/${f%.txt}"; done
sed "s#=> /repo#=> $D#" go.mod > "$D.mod"; cp go.sum "$D.sum"
RACE=""
if echo "$V" | grep -q race; then
  export CGO_ENABLED=1
  rm -rf "$D.rt"; OV=$(./bin/vinstr raceoverlay "$(go1.26.8 env GOROOT)" "$D.rt") || exit 2
  RACE="-race -overlay $OV -gcflags=all=-d=checkptr=0"
fi
go1.26.8 test -c $RACE -modfile="$D.mod" -tags "verif $(echo $TAGS | tr ',' ' ')" -o "bin/$E.test" "./engines/$E"
