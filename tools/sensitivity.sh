#!/bin/sh
# usage: tools/sensitivity.sh [budget_s] [pattern]
# Runs every oracle-sensitivity mutant of mutants/ORACLES.tsv (see tools/mkmutants.py) through the
# check named there and reports whether a key containing the expected substring was reported.
# One scratch worktree per mutant (tools/mutcheck.sh), removed afterwards. Writes mutants/ORACLES.md.
cd "$(dirname "$0")/.." || exit 2
B=${1:-30}; PAT=${2:-.}
OUT=mutants/ORACLES.md
echo "| mutant | check | expected key contains | result | keys reported |" > $OUT.tmp
echo "|---|---|---|---|---|" >> $OUT.tmp
miss=0
grep -e "$PAT" mutants/ORACLES.tsv | while IFS="$(printf '\t')" read -r name check expect; do
  keys=$(tools/mutcheck.sh "mutants/$name.diff" "$check" "$B" 2>&1 | grep -o "key=[^ ]*" | sort -u | tr '\n' ' ')
  if echo "$keys" | grep -q -- "$expect"; then res="fires"; else res="**MISS**"; fi
  echo "$name $check $expect -> $res [$keys]"
  echo "| $name | $check | \`$expect\` | $res | $keys |" >> $OUT.tmp
done
mv $OUT.tmp $OUT
