#!/usr/bin/env python3
"""Oracle-sensitivity mutants: small hand-made changes to gnet, one per oracle family, each meant to
make one specific oracle key fire. Writes mutants/oNN-*.diff (against /repo HEAD) and
mutants/ORACLES.tsv (mutant, check to run, substring expected in a reported key).
tools/sensitivity.sh runs them (scratch worktree per mutant, removed afterwards).
These are not "realistic" changes (the seeded/ directory holds those); they answer a different
question: can this oracle fire at all?"""
import os, subprocess, sys, tempfile

REPO = os.environ.get("VERIF_REPO", "/repo")
OUT = os.path.join(os.path.dirname(os.path.abspath(__file__)), "..", "mutants")

M = []


def m(name, check, expect, *edits):
    M.append((name, check, expect, edits))


EL = "eventloop_unix.go"
CU = "connection_unix.go"

m("o01-wake-skipped-with-pending-output", "C03", "wake-lost", (EL,
  """func (el *eventloop) wake(c *conn) error {
	if !c.opened || el.connections.getConn(c.fd) == nil {""",
  """func (el *eventloop) wake(c *conn) error {
	if !c.opened || el.connections.getConn(c.fd) == nil || !c.outboundBuffer.IsEmpty() {"""))
m("o02-asyncwrite-callback-twice-on-closed", "C03", "callback-twice", (CU,
  """	if !c.opened {
		return net.ErrClosed
	}

	_, err = c.write(hook.data)""",
  """	if !c.opened {
		if hook.callback != nil {
			_ = hook.callback(c, net.ErrClosed)
		}
		return net.ErrClosed
	}

	_, err = c.write(hook.data)"""))
m("o03-eof-reported-as-nil", "C04", "close-nil-without-local-cause", (EL,
  """		if n == 0 {
			err = io.EOF
		}
		return el.close(c, os.NewSyscallError("read", err))""",
  """		if n == 0 {
			err = io.EOF
			return el.close(c, nil)
		}
		return el.close(c, os.NewSyscallError("read", err))"""))
m("o04-close-action-reported-as-error", "C04", "close-error-without-cause", (EL,
  """	case None:
	case Close:
		return el.close(c, nil)
	case Shutdown:
		return errorx.ErrEngineShutdown
	}
	if !c.opened {""",
  """	case None:
	case Close:
		return el.close(c, io.EOF)
	case Shutdown:
		return errorx.ErrEngineShutdown
	}
	if !c.opened {"""))
m("o05-count-not-decremented-on-error-close", "C04", "C04/count", (EL,
  """	el.connections.delConn(c)
	action := el.eventHandler.OnClose(c, err)""",
  """	el.connections.delConn(c)
	if err != nil {
		el.connections.incCount(0, 1)
	}
	action := el.eventHandler.OnClose(c, err)"""))
m("o06-asyncwrite-on-closed-succeeds", "C04", "write-after-close-accepted", (CU,
  """	if !c.opened {
		return net.ErrClosed
	}

	_, err = c.write(hook.data)""",
  """	if !c.opened {
		return nil
	}

	_, err = c.write(hook.data)"""))
m("o07-closeconns-skips-pending-output", "C06", "no-onclose", (EL,
  """	el.connections.iterate(func(c *conn) bool {
		_ = el.close(c, nil)
		return true
	})""",
  """	el.connections.iterate(func(c *conn) bool {
		if c.outboundBuffer.IsEmpty() {
			_ = el.close(c, nil)
		}
		return true
	})"""))
m("o08-onshutdown-twice", "C06", "shutdown-twice", ("engine_unix.go",
  """	eng.eventHandler.OnShutdown(s)

	// Notify all event-loops to exit.""",
  """	eng.eventHandler.OnShutdown(s)
	if eng.ingress == nil {
		eng.eventHandler.OnShutdown(s)
	}

	// Notify all event-loops to exit."""))
m("o09-duplistener-hands-out-the-listener", "C07", "C07/", ("listener_unix.go",
  """		return -1, errorx.ErrEngineInShutdown
	}
	return socket.Dup(ln.fd)
}""",
  """		return -1, errorx.ErrEngineInShutdown
	}
	return ln.fd, nil
}"""))
m("o10-registered-on-loop-zero", "C05", "C05/", ("acceptor_unix.go",
  """		err = el.poller.Trigger(queue.HighPriority, el.register, c)""",
  """		if el0 := el.engine.eventLoops.index(0); el0 != nil {
			err = el0.poller.Trigger(queue.HighPriority, el0.register, c)
		} else {
			err = el.poller.Trigger(queue.HighPriority, el.register, c)
		}"""))
m("o11-et-full-buffer-not-rearmed", "C01", "stranded-input", (EL,
  """	if isET && n == len(el.buffer) {
		return el.poller.Trigger(queue.LowPriority, el.read0, c)
	}""",
  """	if isET && n == len(el.buffer) && recv < chunk {
		return el.poller.Trigger(queue.LowPriority, el.read0, c)
	}"""))
m("o12-peek-beyond-buffered-clamped", "C01", "short-buffer", (CU,
  """func (c *conn) Peek(n int) (buf []byte, err error) {
	inBufferLen := c.inboundBuffer.Buffered()
	if totalLen := inBufferLen + len(c.buffer); n > totalLen {
		return nil, io.ErrShortBuffer
	} else if n <= 0 {""",
  """func (c *conn) Peek(n int) (buf []byte, err error) {
	inBufferLen := c.inboundBuffer.Buffered()
	if totalLen := inBufferLen + len(c.buffer); n > totalLen || n <= 0 {"""))
m("o13-map-registry-count-drifts", "C14", "C14/count", ("conn_map.go",
  """func (cm *connMatrix) delConn(c *conn) {
	delete(cm.connMap, c.fd)
	cm.incCount(0, -1)
}""",
  """func (cm *connMatrix) delConn(c *conn) {
	delete(cm.connMap, c.fd)
	if c.fd%5 != 0 {
		cm.incCount(0, -1)
	}
}"""))
m("o14-hash-depends-on-history", "C15", "hash-unstable", ("load_balancer.go",
  """	hashCode := lb.hash(netAddr.String())
	loops := lb.loops()""",
  """	hashCode := lb.hash(netAddr.String())
	loops := lb.loops()
	if hashCode%7 == 0 {
		hashCode += int(loops[0].countConn())
	}"""))
m("o15-read-enobufs-swallowed", "C18", "victim-not-closed", (EL,
  """		if err == unix.EAGAIN {
			return nil
		}
		if n == 0 {
			err = io.EOF
		}""",
  """		if err == unix.EAGAIN || err == unix.ENOBUFS {
			return nil
		}
		if n == 0 {
			err = io.EOF
		}"""))
m("o16-write-failure-reported-as-nil", "C18", "close-nil-without-local-cause", (EL,
  """	case unix.EAGAIN:
		return nil
	default:
		return el.close(c, os.NewSyscallError("write", err))
	}
	sent += n""",
  """	case unix.EAGAIN:
		return nil
	default:
		return el.close(c, nil)
	}
	sent += n"""))
m("o17-count-zero-after-shutdown", "C19", "answer/", ("gnet.go",
  """	if e.Validate() != nil {
		return -1
	}

	e.eng.eventLoops.iterate""",
  """	if e.eng == nil {
		return -1
	}

	e.eng.eventLoops.iterate"""))
m("o18-write-count-short-on-eagain", "C02", "C02/count", (CU,
  """		if err == unix.EAGAIN {
			_, err = c.outboundBuffer.Write(data)
			if !isET {
				err = c.loop.poller.ModReadWrite(&c.pollAttachment, isET)
			}
			return
		}
		return 0, err""",
  """		if err == unix.EAGAIN {
			_, err = c.outboundBuffer.Write(data)
			if !isET {
				err = c.loop.poller.ModReadWrite(&c.pollAttachment, isET)
			}
			return len(data), err
		}
		return 0, err"""))
m("o19-udp-reply-to-first-sender", "C08", "C08/", (EL,
  """	if ln, ok := el.listeners[fd]; ok {
		c = newUDPConn(fd, el, ln.addr, sa, false)
	} else {""",
  """	if ln, ok := el.listeners[fd]; ok {
		if s4, ok := sa.(*unix.SockaddrInet4); ok && n == 3 {
			s4.Port ^= 1
		}
		c = newUDPConn(fd, el, ln.addr, sa, false)
	} else {"""))
m("o20-local-addr-of-another-listener", "C17", "local-addr", ("acceptor_unix.go",
  """		c := newStreamConn(network, nfd, el, sa, el.listeners[fd].addr, remoteAddr)
		err = el.poller.Trigger""",
  """		lnAddr := el.listeners[fd].addr
		for _, l := range el.listeners {
			if l.fd < fd {
				lnAddr = l.addr
			}
		}
		c := newStreamConn(network, nfd, el, sa, lnAddr, remoteAddr)
		err = el.poller.Trigger"""))
m("o21-conservation-inbound-buffered", "C01", "conservation", (CU,
  """func (c *conn) InboundBuffered() int {""",
  """func (c *conn) InboundBuffered() int {
	if n := c.inboundBuffer.Buffered(); n > 0 && n%64 == 0 {
		return n
	}"""))
m("o22-outbound-buffered-stale", "C02", "outbound-buffered", (CU,
  """func (c *conn) OutboundBuffered() int {""",
  """func (c *conn) OutboundBuffered() int {
	if n := c.outboundBuffer.Buffered(); n > 4096 {
		return n &^ 1
	}"""))
m("o23-map-iterate-stops-early", "C14", "iterate-missing", ("conn_map.go",
  """	for _, c := range cm.connMap {
		if c != nil {
			if !f(c) {
				return
			}
		}
	}""",
  """	seen := 0
	for _, c := range cm.connMap {
		if c != nil {
			if seen++; seen > 2 {
				return
			}
			if !f(c) {
				return
			}
		}
	}"""))
m("o24-udp-remote-of-some-datagrams", "C17", "udp-remote-addr", (EL,
  """	if ln, ok := el.listeners[fd]; ok {
		c = newUDPConn(fd, el, ln.addr, sa, false)
	} else {""",
  """	if ln, ok := el.listeners[fd]; ok {
		if s4, ok := sa.(*unix.SockaddrInet4); ok && n%4 == 3 {
			s4.Port ^= 1
		}
		c = newUDPConn(fd, el, ln.addr, sa, false)
	} else {"""))
m("o25-one-byte-datagram-delivered-twice", "C08", "traffic-without-datagram", (EL,
  """	c.buffer = el.buffer[:n]
	action := el.eventHandler.OnTraffic(c)
	if c.remote != nil {""",
  """	c.buffer = el.buffer[:n]
	if n == 1 {
		_ = el.eventHandler.OnTraffic(c)
		c.buffer = el.buffer[:n]
	}
	action := el.eventHandler.OnTraffic(c)
	if c.remote != nil {"""))
m("o26-eventloop-enroll-goes-through-the-balancer", "C05", "enrolled-on-other-loop", (EL,
  """	return el.enroll(c, c.RemoteAddr(), FromContext(ctx))""",
  """	return el.engine.eventLoops.next(c.RemoteAddr()).enroll(c, c.RemoteAddr(), FromContext(ctx))"""))

m("o27-shutdown-from-a-later-tick-ignored", "C06", "hang", (EL,
  """		case Shutdown:
			// It seems reasonable to mark this as low-priority, waiting for some tasks like asynchronous writes
			// to finish up before shutting down the service.
			err := el.poller.Trigger(""",
  """		case Shutdown:
			if timer != nil {
				break
			}
			// It seems reasonable to mark this as low-priority, waiting for some tasks like asynchronous writes
			// to finish up before shutting down the service.
			err := el.poller.Trigger("""))
m("o28-udp-open-reply-truncated", "C08", "client-open-reply", (CU,
  """	if c.isDatagram && c.remote == nil {
		return unix.Send(c.fd, buf, 0)
	}""",
  """	if c.isDatagram && c.remote == nil {
		return unix.Send(c.fd, buf[:len(buf)-1], 0)
	}"""))

m("o29-connection-counter-read-without-atomic", "C05", "data-race", ("conn_map.go",
  """func (cm *connMatrix) loadCount() (n int32) {
	return atomic.LoadInt32(&cm.connCount)
}""",
  """func (cm *connMatrix) loadCount() (n int32) {
	return cm.connCount
}"""))
m("o30-balancer-list-published-without-atomic", "C05", "data-race", ("load_balancer.go",
  """	loops[len(old)] = el
	lb.eventLoops.Store(&loops)""",
  """	loops[len(old)] = el
	if p := lb.eventLoops.Load(); p != nil {
		*p = loops
		return
	}
	lb.eventLoops.Store(&loops)"""))

m("o31-writev-eats-into-the-callers-batch", "C02", "C02/", (CU,
  """				rest := make([][]byte, 0, len(bs)-i)
				rest = append(rest, bs[i][sent:])
				rest = append(rest, bs[i+1:]...)
				bs, pos = rest, 0
				break""",
  """				bs[i] = bs[i][sent:]
				pos = i
				break"""))

m("o32-eventloop-register-checks-the-address-first", "C19", "answer/EventLoop.Register", (EL,
  """func (el *eventloop) Register(ctx context.Context, addr net.Addr) (<-chan RegisteredResult, error) {
	if el.engine.isShutdown() {
		return nil, errorx.ErrEngineInShutdown
	}
	if addr == nil {
		return nil, errorx.ErrInvalidNetworkAddress
	}""",
  """func (el *eventloop) Register(ctx context.Context, addr net.Addr) (<-chan RegisteredResult, error) {
	if addr == nil {
		return nil, errorx.ErrInvalidNetworkAddress
	}
	if el.engine.isShutdown() {
		return nil, errorx.ErrEngineInShutdown
	}"""))


def main():
    os.makedirs(OUT, exist_ok=True)
    rows = []
    for name, check, expect, edits in M:
        wt = tempfile.mkdtemp(prefix="wt-mk-")
        subprocess.run(["git", "-C", REPO, "worktree", "add", "-q", "--detach", wt, "HEAD"], check=True)
        ok = True
        try:
            for f, old, new in edits:
                p = os.path.join(wt, f)
                s = open(p).read()
                if s.count(old) != 1:
                    print(f"{name}: anchor found {s.count(old)} times in {f}", file=sys.stderr)
                    ok = False
                    break
                open(p, "w").write(s.replace(old, new))
            if ok:
                b = subprocess.run(["go", "build", "./..."], cwd=wt, capture_output=True, text=True,
                                   env=dict(os.environ, GOFLAGS="-mod=mod", GOPROXY="off", GOSUMDB="off"))
                if b.returncode != 0:
                    print(f"{name}: does not compile:\n{b.stderr}", file=sys.stderr)
                    ok = False
            if ok:
                d = subprocess.run(["git", "-C", wt, "diff"], capture_output=True, text=True).stdout
                open(os.path.join(OUT, name + ".diff"), "w").write(d)
                rows.append((name, check, expect))
        finally:
            subprocess.run(["git", "-C", REPO, "worktree", "remove", "--force", wt])
    with open(os.path.join(OUT, "ORACLES.tsv"), "w") as f:
        for r in rows:
            f.write("\t".join(r) + "\n")
    print(f"{len(rows)} of {len(M)} mutants written")


if __name__ == "__main__":
    main()
