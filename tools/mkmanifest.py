#!/usr/bin/env python3
"""Regenerates /verif/MANIFEST.json from the table below (single source of truth for what is claimed)."""
import json, sys

BASELINE_CMD = "for m in $(cat /w/out/gomods.txt); do MF=$(cd /repo/$m && . /w/out/goenv.sh && gomodflag); (cd /repo/$m && go test $MF -json -vet=off -count=1 -timeout 25m ./...); done"

claimed = {
 "C09": dict(engine="vbuf", category="exploration", design="DESIGN.md §3 C09",
   technique="deterministic simulation of operation histories with scripted faulty io.Reader/io.Writer parties against a reference byte-queue model; seeded search with structured shrinking and exact replay",
   text="Seeded search over operation histories on ring.Buffer with every public method, checked operation-by-operation against a []byte reference model plus cross-invariants; readers/writers are simulated parties that return short, fail midway or signal EOF with data; fault-free and fault-injecting configurations are both run. Sampling, not proof: it finds sequences unit tests do not contain (it found four defects on the pinned tree) but a clean batch is evidence only.",
   note="Trusts the reference model (a Go slice) and the scripted stream parties; results the statement leaves open (error values, Discard(n<=0)) are not asserted. Runs the real ring, byteslice pool and math packages of the working tree, uninstrumented."),
 "C10": dict(engine="vbuf", category="exploration", design="DESIGN.md §3 C10",
   technique="deterministic simulation of operation histories with scripted faulty io.Reader/io.Writer parties and a plan-seeded ring pool against a reference byte-queue model; seeded search, shrinking, exact replay",
   text="Same method as C09 for elastic.RingBuffer and elastic.Buffer: histories of Write/Writev/ReadFrom/Read/Peek/Discard/WriteTo/Reset/Release with static limits from 1 byte to 64 KiB and payloads around the ring capacity and the limit, so the ring-to-list switch-over, lazy allocation and pool return are exercised with attributable bytes.",
   note="The ring-buffer pool is reset and seeded from the plan before each run (through a linkname to its package variable) so a run is a function of its plan; a WriteTo that declines to transfer while reporting an error is not flagged (the statement is about content)."),
 "C11": dict(engine="vbuf", category="exploration", design="DESIGN.md §3 C11",
   technique="deterministic simulation of operation histories with scripted faulty io.Reader/io.Writer parties against a reference byte+segment model; seeded search, shrinking, exact replay",
   text="Same method as C09 for linkedlist.Buffer, with a segment-level model (Len, Pop) and the caller's slices scribbled after PushBack/PushFront to check copy semantics; ReadFrom must keep every byte the reader returned including those delivered with EOF or an error.",
   note="Segmentation chosen by ReadFrom is read back from the buffer's own Peek view rather than prescribed; PeekWithBytes is exercised within the bound on which both readings of its API agree."),
}

not_applicable = {
 "C16": "pure function of a string / a few integers (parseProtoAddr, capacity normalisation, loop-count clamp): no schedule, clock, I/O or fault for a simulator to control; generating strings would be input fuzzing in simulator vocabulary (DESIGN.md §4)",
 "C20": "pure integer arithmetic (power-of-two helpers, size-class index, GFD pack/unpack): exhaustive enumeration or proof is the right tool, not simulation (DESIGN.md §4)",
}
pending = {}
for pid in ["C01","C02","C03","C04","C05","C06","C07","C08","C12","C13","C14","C15","C17","C18","C19"]:
    if pid not in claimed:
        pending[pid] = "not claimed yet: the simulation engine for this property is still being built (see DESIGN.md §8 for the order); no check is registered until it is sound"

def main():
    checks = []
    for pid in sorted(claimed):
        c = claimed[pid]
        checks.append({
            "property_id": pid,
            "quick_cmd": f"./check.sh {pid} --tier quick",
            "thorough_cmd": f"./check.sh {pid} --tier thorough",
            "evidence_file": f"/verif/evidence/{pid}.json",
            "replay_cmd_template": f"./check.sh {pid} --replay {{path}}",
            "engine": c["engine"],
            "level_claimed": {"category": c["category"], "text": c["text"], "design_ref": c["design"]},
            "level_note": c["note"],
            "technique": c["technique"],
        })
    na = [{"property_id": k, "reason": v} for k, v in sorted({**not_applicable, **pending}.items())]
    engines = {}
    for pid, c in claimed.items():
        engines.setdefault(c["engine"], []).append(pid)
    kinds = {
      "vbuf": "single-threaded simulation of buffer objects with scripted stream parties and allocator (no scheduler)",
      "vqueue": "instrumented pkg/queue under the seeded cooperative scheduler; porcupine linearizability check",
      "vpoll": "instrumented netpoll.Poller + queue on the simulated kernel under the seeded scheduler",
      "vsim": "whole-engine simulation: instrumented gnet on the simulated kernel (vsys) under the seeded scheduler (vsched) inside a synctest bubble",
      "vpool": "byte-slice / ring-buffer pool ownership ledger under the seeded scheduler",
      "vreg": "connection registry history driver (both build variants)",
    }
    m = {
      "version": 1,
      "setup_cmd": "sh ./setup.sh",
      "hooks": {
        "guard": "verif",
        "enable": "no hook is committed to /repo: every check copies /repo's working tree to a scratch directory, rewrites call sites there (syscalls -> simulated kernel, sync/atomic -> yielding atomics, goroutine spawns, map ranges) with cmd/vinstr, adds export files guarded by the build tag `verif`, and builds with -tags verif; the buffer engine imports /repo unmodified",
        "baseline_off_cmd": BASELINE_CMD,
        "source_commits": [],
        "add_only": True,
      },
      "engines": [{"name": n, "path": f"/verif/engines/{n}", "serves_properties": sorted(p), "kind_free_text": kinds.get(n, "")} for n, p in sorted(engines.items())],
      "checks": checks,
      "not_applicable": na,
      "notes": "All checks are deterministic simulations: one seed (VERIF_SEED) decides plan, schedule and faults; violations are shrunk and written to /verif/replays/, and `./check.sh <ID> --replay <file>` reproduces them in a fresh process. Exit 2 means harness/build trouble, never a violation. Genuine defects found and repaired are listed in known_findings.json (status fixed) and DESIGN.md.",
    }
    json.dump(m, open("/verif/MANIFEST.json", "w"), indent=1)
    print("MANIFEST.json:", len(checks), "checks,", len(na), "not claimed")

main()
