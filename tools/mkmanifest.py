#!/usr/bin/env python3
"""Regenerates /verif/MANIFEST.json from the table below (single source of truth for what is claimed)."""
import json, sys

BASELINE_CMD = "for m in $(cat /w/out/gomods.txt); do MF=$(cd /repo/$m && . /w/out/goenv.sh && gomodflag); (cd /repo/$m && go test $MF -json -vet=off -count=1 -timeout 25m ./...); done"

claimed = {
 "C09": dict(engine="vbuf", category="exploration", design="DESIGN.md §3 C09",
   technique="deterministic simulation of operation histories with scripted faulty io.Reader/io.Writer parties against a reference byte-queue model; seeded search with structured shrinking and exact replay",
   text="Seeded search over operation histories on ring.Buffer with every public method, checked operation-by-operation against a []byte reference model plus cross-invariants; readers/writers are simulated parties that return short, fail midway or signal EOF with data; fault-free and fault-injecting configurations are both run. Sampling, not proof: it finds sequences unit tests do not contain (it found four defects on the pinned tree) but a clean batch is evidence only.",
   note="Trusts the reference model (a Go slice) and the scripted stream parties; results the statement leaves open (error values, Discard(n<=0)) are not asserted. Runs the real ring, byteslice pool and math packages of the working tree, uninstrumented."),
 "C10": dict(engine="vbuf", category="exploration", design="DESIGN.md §3 C10",
   technique="deterministic simulation of operation histories with scripted faulty io.Reader/io.Writer parties and a plan-seeded ring pool against a reference byte-queue model; seeded search, shrinking, exact replay",
   text="Same method as C09 for elastic.RingBuffer and elastic.Buffer: histories of Write/Writev/ReadFrom/Read/Peek/Discard/WriteTo/Reset/Release with static limits from 1 byte to 64 KiB and payloads around the ring capacity and the limit, so the ring-to-list switch-over, lazy allocation and pool return are exercised with attributable bytes.",
   note="The ring-buffer pool is reset and seeded from the plan before each run (through a linkname to its package variable) so a run is a function of its plan; a WriteTo that declines to transfer while reporting an error is not flagged (the statement is about content)."),
 "C11": dict(engine="vbuf", category="exploration", design="DESIGN.md §3 C11",
   technique="deterministic simulation of operation histories with scripted faulty io.Reader/io.Writer parties against a reference byte+segment model; seeded search, shrinking, exact replay",
   text="Same method as C09 for linkedlist.Buffer, with a segment-level model (Len, Pop) and the caller's slices scribbled after PushBack/PushFront to check copy semantics; ReadFrom must keep every byte the reader returned including those delivered with EOF or an error.",
   note="Segmentation chosen by ReadFrom is read back from the buffer's own Peek view rather than prescribed; PeekWithBytes is exercised within the bound on which both readings of its API agree."),
}

SIM_NOTE = "Runs the real engine code of the working tree (instrumented at call boundaries only) on a simulated Linux kernel and a seeded cooperative scheduler inside a synctest bubble; trusts the kernel model (held to the real kernel by the conformance self-test), the harness's reference bookkeeping, and that preemption only matters at syscalls, atomics, channel wake-ups and callbacks."
SIM_TECH = 'deterministic whole-system simulation (simulated kernel + seeded cooperative scheduler in a synctest bubble) with fault injection; invariants checked during the run and over the recorded history; seeded search with plan shrinking and exact replay'
claimed.update({
 "C01": dict(engine="vsim", category="exploration", design="DESIGN.md §3 C01", technique=SIM_TECH, note=SIM_NOTE,
   text="Seeded search over peer streams, arrival segmentations, handler consumption scripts and engine configurations; byte-exact prefix, conservation and offered-before-close oracles evaluated inside every callback against what the simulated kernel actually delivered, plus no-stranded-input at quiescence. Reaches segmentations, leftovers across the ring/fresh boundary and data+FIN coincidences that loopback tests never produce, reproducibly; sampling, not proof."),
 "C02": dict(engine="vsim", category="exploration", design="DESIGN.md §3 C02", technique=SIM_TECH, note=SIM_NOTE,
   text="Seeded search over write-operation sequences (sync and async, from callbacks and user goroutines) under back-pressure: tiny send buffers, stalling and draining peers, buffer squeeze; the peer-side stream is compared with the accepted operations in effect order (prefix always, complete at quiescence). Found and led to the repair of a stranded-data defect (ReadFrom+Flush in LT mode)."),
 "C03": dict(engine="vsim", category="exploration", design="DESIGN.md §3 C03", technique=SIM_TECH, note=SIM_NOTE,
   text="Seeded search over interleavings of application goroutines issuing asynchronous requests with the loops, with every atomic of the poller and queue a scheduling point in part of the runs (the lost-wake-up window between enqueue, the wakeupCall CAS and the eventfd write); exactly-once, per-user order and one-OnTraffic-per-Wake oracles at quiescence while the engine runs."),
 "C04": dict(engine="vsim", category="exploration", design="DESIGN.md §3 C04", technique=SIM_TECH, note=SIM_NOTE,
   text="Seeded search over racing close causes and late requests with descriptor numbers re-opened immediately by canaries; a per-connection state machine and cause-consistency oracle for the OnClose error, CountConnections checked against the window of opened-closed."),
 "C05": dict(engine="vsim", category="exploration", design="DESIGN.md §3 C05", technique=SIM_TECH + "; in the +race variants the Go race detector, shown only the framework's own synchronisation, is the happens-before oracle of each simulated run",
   note=SIM_NOTE + " Confinement (which task runs which callback and issues which kernel call, no overlap, no panic under arbitrary concurrent API calls) is decided by attribution. Freedom from data races is decided by the race flavour: the deterministic runs execute under the Go race detector, which sees only the framework's own synchronisation (the serialising scheduler and the harness are hidden from it by a build overlay of two runtime files; trusts that overlay, the attribution of a report by its innermost non-library frames, and that the application-side hand-overs modelled by the harness are the ones a well-behaved application has). A pair of accesses is reported when it is unordered, not only when the racy interleaving occurs; accesses inside the standard library count for the calling gnet function; code paths no run reaches are not judged.",
   text="Confinement by simulation: every callback, runnable and kernel call is attributed to the executing task; one task per connection for life, no overlapping callbacks per loop, all I/O on a connection's descriptor from its loop's task, while user tasks call every concurrency-safe API at arbitrary moments. Data races: the same seeded runs in a race-detector build in which the detector is the happens-before oracle over gnet's accesses and gnet's synchronisation only; found and led to the repair of two races (Engine calls during start against the load balancer's list; a ring buffer recycled while Conn.WriteTo was still draining it)."),
 "C06": dict(engine="vsim", category="exploration", design="DESIGN.md §3 C06", technique=SIM_TECH, note=SIM_NOTE,
   text="Seeded search over shutdown source and moment (any scheduler step) with open, idle, active and half-accepted connections and concurrent second stops; Run must return nil before the system goes quiet for good, after every OnClose and exactly one OnShutdown, and nothing of the engine may run in a post-mortem phase in which timers keep firing."),
 "C07": dict(engine="vsim", category="exploration", design="DESIGN.md §3 C07", technique=SIM_TECH, note=SIM_NOTE,
   text="The simulated kernel keeps an exact ledger of descriptor ownership: any framework call on a closed or foreign number is caught at that step (canaries re-open freed numbers immediately, so use-after-close always lands on a foreign descriptor), and at Run's return every framework-created descriptor must be closed and unix-socket files removed. Found three use-after-close defects (repaired) and one descriptor leak at shutdown (known finding)."),
})

claimed["C13"] = dict(engine="vqueue", category="exploration", design="DESIGN.md §3 C13",
   technique="deterministic simulation of concurrent queue operations under a seeded cooperative scheduler (yield before every atomic), recorded histories checked for linearizability with porcupine against a sequential FIFO model",
   text="2..4 simulated tasks run short Enqueue/Dequeue/Length/IsEmpty scripts on the real lock-free queue with a scheduling point before every atomic load/CAS/add under random, PCT and starvation schedules; each recorded history (invoke/return stamped with a global event counter) is checked with porcupine against a sequential FIFO queue; Length/IsEmpty are checked when no operation overlaps; a final drain must yield every task exactly once. Sampling of interleavings with exact replay, not enumeration.",
   note="Assumes sequentially consistent atomics and preemption only between atomic operations; histories stay below 20 operations so the linearizability check is instant; porcupine timeouts are counted inconclusive.")
claimed["C03"]["text"] += " A second engine (vpoll) runs the real netpoll.Poller and queue alone on the simulated kernel with 1..4 producers and small task-batch thresholds, where a consumer parked in epoll_wait with a non-empty queue is reported with its exact schedule; default and poll_opt builds."

claimed["C18"] = dict(engine="vsim", category="fault_enumeration", design="DESIGN.md §3 C18", technique=SIM_TECH + "; single faults enumerated per call site and call index over seeded scenarios", note=SIM_NOTE + " Enumeration is complete per scenario for the listed sites, call indexes up to the bound and errno sets (reported as scenarios-enumerated-completely); scenarios themselves are sampled. Fatal epoll_wait errors, EMFILE on accept and eventfd write failures are not injected (the engine shuts down or the statement does not cover them).",
   text="For each seeded scenario the syscall trace of a fault-free run is recorded, then every single fault (site x call index <= K x realistic errno) is injected in a separate deterministic run on the same schedule prefix, with bystander connections carrying byte-checked traffic and a late probe connection proving the engine stayed up; plus random plans with random faults. Found that a failing epoll_ctl MOD in eventloop.write left the connection open with a stale registration (repaired).")

claimed["C19"] = dict(engine="vsim", category="exploration", design="DESIGN.md §3 C19", technique=SIM_TECH + "; answers checked against a small reference state machine with windows for calls that overlap a state change", note=SIM_NOTE + " The harness only knows the engine state through what it observed (OnBoot, the run task blocking in stop, stop requests, Run returning): calls overlapping a transition are accepted with either neighbour's answer.",
   text="Seeded search over sequences of control calls from one or several simulated goroutines against every engine state, including calls racing with a shutdown started by any other source at any scheduler step and Stop with cancelled/expiring contexts on the bubble's fake clock; a reference state machine decides the legal answers. Found that a Register/Enroll accepted while the engine shuts down never delivers a result (known finding).")

claimed["C14"] = dict(engine="vsim", category="exploration", design="DESIGN.md §3 C14", technique=SIM_TECH + "; registry additionally driven alone through seeded histories against a map model (both build variants)", note=SIM_NOTE + " The registry snapshot comes from a read-only export file injected into the scratch copy (degrades to 'unavailable' if the tree renames the fields). The stand-alone history part is plain model-based generation (no schedule or fault in it) and is labelled so in the evidence. Removing only some visited connections during an iteration is outside the statement and is not generated.",
   text="The schedule is what makes registry histories adversarial (which numbers are registered and removed in what order, removal during the shutdown iteration, immediate re-registration of a just-closed number): the whole-engine simulation produces them and compares, inside every callback, the loop's registry with the harness's live set, for the map registry and the compacting matrix of gc_opt.")
claimed["C15"] = dict(engine="vsim", category="exploration", design="DESIGN.md §3 C15", technique=SIM_TECH, note=SIM_NOTE + " The loop of a connection is observed as the scheduler task that runs its callbacks; the least-connections oracle uses runs whose connects are serialised and in which atomics are not scheduling points, so that the balancer's scan is atomic with the accept4 before it.",
   text="Seeded search over accept/close sequences (hence per-loop count vectors), loop counts and remote addresses; the accept order is known from the simulated kernel, the serving loop from the scheduler, and each policy's rule is checked on the resulting sequence.")
claimed["C17"] = dict(engine="vsim", category="exploration", design="DESIGN.md §3 C17", technique=SIM_TECH, note=SIM_NOTE + " Covers the in-system half of the statement (addresses reported for accepted connections, for their whole life, under churn). The conversion round-trip clause is a pure function of its input and is only covered to the extent these runs generate addresses; UDP sources are covered by C08 when claimed.",
   text="The simulated kernel fabricates the peer addresses handed to accept4, including zoned link-local IPv6 with existing and non-existing interface indexes, so the address conversion runs on generated input inside the running system and is compared at every callback. Found a garbage byte in the zone string of unknown interfaces (repaired).")

claimed["C08"] = dict(engine="vsim", category="exploration", design="DESIGN.md §3 C08", technique=SIM_TECH, note=SIM_NOTE + " Datagram loss, duplication and reordering by the network are not modelled (the statement is about what the framework does with a datagram it received); recvfrom/sendto errno faults belong to C18.",
   text="Seeded search over payload sizes, sender interleavings, consumption choices and reply operations with a per-datagram identity oracle: the simulated kernel records which datagram each recvfrom returned and every sendto the framework makes, so merged, split, carried-over or misaddressed datagrams are caught exactly; default and poll_opt builds.")

claimed["C12"] = dict(engine="vpool", category="exploration", design="DESIGN.md §3 C12", technique="deterministic simulation of pool users under a seeded cooperative scheduler with an address-range ownership ledger and canary patterns; seeded search, shrinking, exact replay",
   note="sync.Pool is replaced by a deterministic LIFO in the scratch copy (what Get returns must be a function of the history); the class arithmetic and slice handling of the byte-slice pool and the ring-buffer pool are the real code. Sizes above 4 MiB are not exercised.",
   text="Seeded search over interleaved Get/Put histories from 1..4 simulated tasks with slices of every shape; an exact ledger of outstanding address ranges (memory kept alive so addresses cannot be recycled) decides aliasing and out-of-bounds hand-outs, canaries over the full capacity detect writes through another holder.")

not_applicable = {
 "C16": "pure function of a string / a few integers (parseProtoAddr, capacity normalisation, loop-count clamp): no schedule, clock, I/O or fault for a simulator to control; generating strings would be input fuzzing in simulator vocabulary (DESIGN.md §4)",
 "C20": "pure integer arithmetic (power-of-two helpers, size-class index, GFD pack/unpack): exhaustive enumeration or proof is the right tool, not simulation (DESIGN.md §4)",
}
pending = {}
for pid in ["C01","C02","C03","C04","C05","C06","C07","C08","C12","C13","C14","C15","C17","C18","C19"]:
    if pid not in claimed:
        pending[pid] = "not claimed yet: the simulation engine for this property is still being built (see DESIGN.md §8 for the order); no check is registered until it is sound"

def main():
    checks = []
    for pid in sorted(claimed):
        c = claimed[pid]
        checks.append({
            "property_id": pid,
            "quick_cmd": f"./check.sh {pid} --tier quick",
            "thorough_cmd": f"./check.sh {pid} --tier thorough",
            "evidence_file": f"/verif/evidence/{pid}.json",
            "replay_cmd_template": f"./check.sh {pid} --replay {{path}}",
            "engine": c["engine"],
            "level_claimed": {"category": c["category"], "text": c["text"], "design_ref": c["design"]},
            "level_note": c["note"],
            "technique": c["technique"],
        })
    na = [{"property_id": k, "reason": v} for k, v in sorted({**not_applicable, **pending}.items())]
    engines = {}
    for pid, c in claimed.items():
        engines.setdefault(c["engine"], []).append(pid)
    kinds = {
      "vbuf": "single-threaded simulation of buffer objects with scripted stream parties and allocator (no scheduler)",
      "vqueue": "instrumented pkg/queue under the seeded cooperative scheduler; porcupine linearizability check",
      "vpoll": "instrumented netpoll.Poller + queue on the simulated kernel under the seeded scheduler",
      "vsim": "whole-engine simulation: instrumented gnet on the simulated kernel (vsys) under the seeded scheduler (vsched) inside a synctest bubble",
      "vpool": "byte-slice / ring-buffer pool ownership ledger under the seeded scheduler",
      "vreg": "connection registry history driver (both build variants)",
    }
    m = {
      "version": 1,
      "setup_cmd": "sh ./setup.sh",
      "hooks": {
        "guard": "verif",
        "enable": "no hook is committed to /repo: every check copies /repo's working tree to a scratch directory, rewrites call sites there (syscalls -> simulated kernel, sync/atomic -> yielding atomics, goroutine spawns, map ranges) with cmd/vinstr, adds export files guarded by the build tag `verif`, and builds with -tags verif; the buffer engine imports /repo unmodified; the +race variants of C05 additionally build with -race and a build overlay of two files of the toolchain's package runtime (copies in the scratch directory, nothing is written to the toolchain or to /repo)",
        "baseline_off_cmd": BASELINE_CMD,
        "source_commits": [],
        "add_only": True,
      },
      "engines": [{"name": n, "path": f"/verif/engines/{n}", "serves_properties": sorted(p), "kind_free_text": kinds.get(n, "")} for n, p in sorted(engines.items())],
      "checks": checks,
      "not_applicable": na,
      "notes": "All checks are deterministic simulations: one seed (VERIF_SEED) decides plan, schedule and faults; violations are shrunk and written to /verif/replays/, and `./check.sh <ID> --replay <file>` reproduces them in a fresh process. Exit 2 means harness/build trouble, never a violation. Genuine defects found and repaired are listed in known_findings.json (status fixed) and DESIGN.md.",
    }
    json.dump(m, open("/verif/MANIFEST.json", "w"), indent=1)
    print("MANIFEST.json:", len(checks), "checks,", len(na), "not claimed")

main()
