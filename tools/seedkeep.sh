#!/bin/sh
# usage: tools/seedkeep.sh <seed-id> <agent-out-dir> <property> "<needs>" "<caught by>" demo-file...
ID=$1; SRC=$2; PROP=$3; NEEDS=$4; CAUGHT=$5; shift 5
D=/verif/seeded/$ID; mkdir -p "$D"
cp "$SRC/patch.diff" "$D/patch.diff"
[ -f "$SRC/notes.md" ] && cp "$SRC/notes.md" "$D/notes.md"
for f in "$@"; do cp "$SRC/$f" "$D/"; done
python3 - "$ID" "$PROP" "$NEEDS" "$CAUGHT" "$@" <<'PY'
import json,sys
id,prop,needs,caught=sys.argv[1:5]; demos=sys.argv[5:]
json.dump({"id":id,"breaks_property":prop,"needs_to_manifest":needs,"demonstration":demos,"checks_run":caught,
  "confirmed":"patch applies to /repo HEAD; demonstration passes on the clean tree and fails with the patch (tools/seedverify.sh); existing suite with the patch: see suite.log"},
  open(f"/verif/seeded/{id}/meta.json","w"),indent=1)
PY
echo kept $ID
