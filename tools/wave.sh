#!/bin/sh
# usage: tools/wave.sh <agent-out-dir> [budget]
# For every <dir>/<cNN>/patch.diff: run the check of property CNN against the patched tree (tools/mutcheck.sh)
# and the demonstration both ways (tools/seedverify.sh, using run.txt: line 1 = directory, line 2 = go test args).
D=$1; B=${2:-40}
for P in "$D"/*/patch.diff; do
  dir=$(dirname "$P"); id=$(basename "$dir" | tr 'a-z' 'A-Z' | sed 's/^\(C[0-9][0-9]\).*/\1/')
  echo "##### $dir -> $id"
  tools/mutcheck.sh "$P" "$id" "$B" 2>&1 | grep -v "^\[gnet" | grep "VIOLATION\|key=\|quick:\|apply\|HARNESS" | grep -v KNOWN | cut -c1-200 | head -5
  if [ -f "$dir/run.txt" ]; then
    rel=$(sed -n 1p "$dir/run.txt"); args=$(sed -n 2p "$dir/run.txt")
    demo=$(ls "$dir"/*_test.go | head -1)
    echo "   demo: $rel | $args"
    SEEDNS=1 tools/seedverify.sh "$P" "$demo" "$rel" $args 2>&1 | grep "== \|^ok\|^FAIL\|does not apply" | tr '\n' ' '; echo
  fi
done
