#!/bin/sh
# usage: tools/seedsuite.sh <patch.diff|-> <log>
# Runs gnet's own test suite on a scratch worktree of /repo HEAD with the patch applied ("-" = clean
# tree), inside a private network namespace so that parallel runs do not fight over fixed ports.
# In a netns TestServeMulticast ("no such device") and TestBindToDevice fail on the clean tree as
# well; they are reported separately. Scratch worktree removed afterwards.
P=$1; LOG=$(realpath -m "$2")
export GOFLAGS=-mod=mod GOPROXY=off GOSUMDB=off
WT=$(mktemp -d /tmp/wt-suite-XXXXXX)
git -C /repo worktree add -q --detach "$WT" HEAD || exit 2
if [ "$P" != "-" ]; then git -C "$WT" apply "$(realpath "$P")" || { git -C /repo worktree remove --force "$WT"; exit 2; }; fi
(cd "$WT" && SEEDTAGS="$SEEDTAGS" unshare -n -- sh -c 'ip link set lo up; go test $SEEDTAGS -vet=off -count=1 -timeout 25m ./... 2>&1') | grep -v '^\[gnet\]' > "$LOG"
git -C /repo worktree remove --force "$WT"
echo "$P: $(grep -c '^ok' "$LOG") packages ok; failing tests: $(grep -- '^--- FAIL' "$LOG" | sort -u | tr '\n' ' ')"
