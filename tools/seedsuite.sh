#!/bin/sh
# usage: tools/seedsuite.sh <patch.diff|-> <log>
# Runs gnet's own test suite on a scratch worktree of /repo HEAD with the patch applied ("-" = clean
# tree), inside a private network namespace so that parallel runs do not fight over fixed ports.
# The namespace gets lo and a veth pair named eth0 with a default route: with lo alone
# TestServeMulticast fails and TestBindToDevice panics in its own OnTick (and takes the rest of the
# package with it) on the clean tree as well. Scratch worktree removed afterwards.
P=$1; LOG=$(realpath -m "$2")
export GOFLAGS=-mod=mod GOPROXY=off GOSUMDB=off
WT=$(mktemp -d /tmp/wt-suite-XXXXXX)
git -C /repo worktree add -q --detach "$WT" HEAD || exit 2
if [ "$P" != "-" ]; then git -C "$WT" apply "$(realpath "$P")" || { git -C /repo worktree remove --force "$WT"; exit 2; }; fi
(cd "$WT" && SEEDTAGS="$SEEDTAGS" unshare -n -- sh -c 'ip link set lo up; ip link add eth0 type veth peer name vpeer; ip addr add 10.77.0.1/24 brd + dev eth0; ip addr add 10.77.0.2/24 brd + dev vpeer; ip link set eth0 up; ip link set vpeer up; ip route add default via 10.77.0.2 dev eth0; sleep 3; go test $SEEDTAGS -vet=off -count=1 -timeout 25m ./... 2>&1') | grep -v '^\[gnet\]' > "$LOG"
git -C /repo worktree remove --force "$WT"
echo "$P: $(grep -c '^ok' "$LOG") packages ok; failing tests: $(grep -- '^--- FAIL' "$LOG" | sort -u | tr '\n' ' ')"
